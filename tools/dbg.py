"""dev helper: print targets/utilities/tables for a replay file or inline case"""
import json, sys, numpy as np
np.set_printoptions(linewidth=220, suppress=True, precision=6)
sys.path.insert(0,'/verif')
from opv.gen import service as S
d=json.load(open(sys.argv[1])); case=d.get('case',d)
print(json.dumps(case))
ok,r=S.run_service(case)
if not ok: print(r, S.call_sut.last_message); sys.exit()
res,m=r
cols=sys.argv[2].split(',') if len(sys.argv)>2 else ['T','H_net','H_net_np','H_net_actual','H_net_ut']
for p,z in S.walk(m):
    for k,t in z.targets.items():
        print(p,k,'Qh',t.hot_utility_target,'Qc',t.cold_utility_target,'Qr',t.heat_recovery_target,'pinch',t.hot_pinch,t.cold_pinch)
        print('   HU',[(u.name,round(u.heat_flow,6),u.t_max_star,u.t_min_star) for u in t.hot_utilities],'CU',[(u.name,round(u.heat_flow,6),u.t_min_star,u.t_max_star) for u in t.cold_utilities])
        if len(sys.argv)>3 and 'Direct' in k or (len(sys.argv)>3 and sys.argv[3]=='all'):
            for c in cols: print('    ',c, t.pt.col[c])
