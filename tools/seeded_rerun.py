#!/venv/bin/python
"""Re-run every kept seeded change and revert mutant at another VERIF_SEED (development tool).

Each patch is applied to a scratch worktree of /repo (never to /repo itself); the quick check of the
property it targets runs against that tree through PYTHONPATH, with outputs redirected (OPV_OUT).

    tools/seeded_rerun.py --seed 2 --workers 4 --out seeded/RERUN_seed2.txt
"""
import argparse, glob, json, multiprocessing as mp, os, re, subprocess, shutil

ROOT = os.path.dirname(os.path.dirname(os.path.abspath(__file__)))
SCR = "/tmp/opv_rerun"


def jobs():
    out = []
    for m in sorted(glob.glob(os.path.join(ROOT, "seeded", "*", "meta.json"))):
        d = json.load(open(m))
        out.append((d["id"], os.path.join(os.path.dirname(m), "patch.diff"), [d["property"]]))
    for p in sorted(glob.glob(os.path.join(ROOT, "mutants", "*.patch"))):
        out.append((os.path.basename(p)[:-6], p, [os.path.basename(p)[:3]]))
    return out


def work(args):
    k, items, seed = args
    wt = f"{SCR}/w{k}"
    subprocess.run(["git", "-C", "/repo", "worktree", "remove", "--force", wt], stdout=subprocess.DEVNULL, stderr=subprocess.DEVNULL)
    subprocess.run(["git", "-C", "/repo", "worktree", "add", "-q", "--detach", wt, "HEAD"], check=True)
    res = []
    for name, patch, pids in items:
        a = subprocess.run(["git", "-C", wt, "apply", patch], stdout=subprocess.PIPE, stderr=subprocess.STDOUT, text=True)
        if a.returncode:
            res.append((name, "PATCH DOES NOT APPLY", ""))
            continue
        env = dict(os.environ, PYTHONPATH=wt, OPV_OUT=f"{SCR}/out{k}", OPV_NO_SHRINK="1", VERIF_SEED=str(seed), PYTHONHASHSEED="0")
        for pid in pids:
            p = subprocess.run(["/venv/bin/python", "-m", "opv.check", pid, "--tier", "quick"], cwd=ROOT, env=env, stdout=subprocess.PIPE, stderr=subprocess.STDOUT, text=True)
            b = re.findall(r"^bucket (\S+)", p.stdout, flags=re.M)
            corpus = len(re.findall(r"^corpus case", p.stdout, flags=re.M))
            res.append((name, f"{pid} rc={p.returncode}", ", ".join(b[:4]) + (f" (+{corpus} corpus case(s))" if corpus else "")))
        subprocess.run(["git", "-C", wt, "checkout", "--", "."])
    subprocess.run(["git", "-C", "/repo", "worktree", "remove", "--force", wt], stdout=subprocess.DEVNULL, stderr=subprocess.DEVNULL)
    return res


if __name__ == "__main__":
    ap = argparse.ArgumentParser()
    ap.add_argument("--seed", type=int, default=2)
    ap.add_argument("--workers", type=int, default=4)
    ap.add_argument("--out", required=True)
    a = ap.parse_args()
    js = jobs()
    os.makedirs(SCR, exist_ok=True)
    with mp.Pool(a.workers) as pool:
        res = pool.map(work, [(k, js[k :: a.workers], a.seed) for k in range(a.workers)])
    flat = sorted(r for rr in res for r in rr)
    with open(os.path.join(ROOT, a.out), "w") as fh:
        fh.write(f"# quick checks at VERIF_SEED={a.seed} against every kept seeded change / revert mutant (scratch worktrees)\n")
        for r in flat:
            fh.write(" | ".join(r) + "\n")
    print(sum("rc=1" in r[1] for r in flat), "reported of", len(flat))
    print("\n".join(" | ".join(r) for r in flat if "rc=1" not in r[1]))
    shutil.rmtree(SCR, ignore_errors=True)
