#!/usr/bin/env python3
"""Regenerate seeded/README.md from seeded/<id>/meta.json."""
import json, os, glob
ROOT = os.path.dirname(os.path.dirname(os.path.abspath(__file__)))
rows = []
for m in sorted(glob.glob(os.path.join(ROOT, "seeded", "*", "meta.json"))):
    d = json.load(open(m))
    rows.append(d)
with open(os.path.join(ROOT, "seeded", "README.md"), "w") as fh:
    fh.write("# Independently seeded breaking changes\n\nEach directory holds `patch.diff` (apply with `git -C /repo apply`, undo with `git -C /repo checkout -- .`), the author's demonstration `demo.py` and `meta.json`.  None of them is ever committed in /repo.\n\n")
    fh.write("| id | property | change | needs, to manifest | confirmed (suite green, demo fails/passes) | caught by (quick tier) |\n|---|---|---|---|---|---|\n")
    for d in rows:
        e = lambda t: str(t).replace('|', '\\|').replace('\n', ' ')
        fh.write(f"| {d['id']} | {d['property']} | {e(d['change'])} | {e(d['needs'])} | {e(d['confirmed'])} | {e(d['caught_by'])} |\n")
print(len(rows), "entries")
