#!/bin/bash
# Runs every revert-mutant against the checks expected to catch it; writes mutants/AUDIT.txt
cd /verif
out=mutants/AUDIT.txt; : > $out
run() { p=$1; shift; echo "### $p -> $*" >> $out; tools/audit.sh mutants/$p "$@" 2>&1 | grep "^==" >> $out; }
run C07_revert_r4_stale_pinch.patch C07 C03
run C07_revert_below_noinsert.patch C03 C07 C12
run C08_revert_r3_insertion.patch C08 C05
run C05_revert_r2_is_shifted.patch C05
run C03_revert_r1_cold_window.patch C02 C03
run C03_revert_r5_default_utility.patch C02 C03
run C04_revert_glide_pairing.patch C04
run C10_revert_suffix_matching.patch C10
run C19_revert_type_frozen.patch C19
run C17_revert_npcross.patch C17
run C13_revert_last_kept.patch C13 C17
run C13_revert_nan_guard.patch C13 C14
run C14_revert_pinch_none.patch C14
run C15_revert_discontinuity.patch C15
run C16_revert_reader_na.patch C16
run C18_revert_ihx_clamp.patch C18
run C18_revert_mdot.patch C18
run C11_revert_graph_default.patch C11
run C11_revert_model_copy.patch C11
echo DONE >> $out
