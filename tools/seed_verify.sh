#!/bin/bash
# usage: tools/seed_verify.sh <Cxx> [srcdir]   -- confirm an independently written breaking change in a scratch worktree
#   1. demo passes on a clean tree  2. patch applies  3. repository suite still passes  4. demo fails with the patch
id=$1; src=${2:-/tmp/wt_${id}_out}
wt=/tmp/sv_$id
git -C /repo worktree remove --force $wt 2>/dev/null
git -C /repo worktree add -q --detach $wt HEAD || exit 9
cd $wt
PYTHONPATH=$wt /venv/bin/python $src/demo.py >/tmp/sv_$id.clean.log 2>&1; rc_clean=$?
git apply $src/patch.diff || { echo "PATCH DOES NOT APPLY"; git -C /repo worktree remove --force $wt; exit 8; }
/venv/bin/python -m pytest -q -p no:cacheprovider 2>&1 | tail -1 > /tmp/sv_$id.suite.log; suite=$(cat /tmp/sv_$id.suite.log)
PYTHONPATH=$wt /venv/bin/python $src/demo.py >/tmp/sv_$id.patched.log 2>&1; rc_patched=$?
cd /; git -C /repo worktree remove --force $wt
echo "id=$id demo_clean_rc=$rc_clean suite='$suite' demo_patched_rc=$rc_patched"
if [ $rc_clean -eq 0 ] && [ $rc_patched -ne 0 ] && echo "$suite" | grep -q "passed" && ! echo "$suite" | grep -q "failed"; then echo CONFIRMED; else echo NOT-CONFIRMED; fi
