#!/venv/bin/python
"""Generator-health margins (development tool): run every quick check at several VERIF_SEED values into a scratch
output directory and report, per class-share / non-trivial threshold, the smallest observed value and its margin.
A threshold that is close to what the generator produces would turn into a HARNESS-ERROR (exit 2) at some seed.

    tools/health_audit.py --seeds 1,2,3,4,5 [--props C01,C02] [--tier quick]
"""
import argparse, importlib, json, os, subprocess, sys, shutil

ROOT = os.path.dirname(os.path.dirname(os.path.abspath(__file__)))
sys.path.insert(0, ROOT)
ap = argparse.ArgumentParser()
ap.add_argument("--seeds", default="1,2,3,4,5")
ap.add_argument("--props", default=",".join(f"C{i:02d}" for i in range(1, 21)))
ap.add_argument("--tier", default="quick")
ap.add_argument("--out", default="/tmp/opv_health")
a = ap.parse_args()
rows = []
for pid in a.props.split(","):
    mod = importlib.import_module(f"opv.props.{pid.lower()}")
    shares = getattr(mod, "MIN_SHARE", {})
    obs = {}
    rcs = []
    for seed in a.seeds.split(","):
        out = os.path.join(a.out, seed)
        env = dict(os.environ, VERIF_SEED=seed, OPV_OUT=out, OPV_NO_SHRINK="1", PYTHONHASHSEED="0")
        p = subprocess.run(["/venv/bin/python", "-m", "opv.check", pid, "--tier", a.tier], cwd=ROOT, env=env, stdout=subprocess.PIPE, stderr=subprocess.STDOUT, text=True)
        rcs.append(p.returncode)
        if p.returncode != 0:
            print(f"!! {pid} seed {seed} rc={p.returncode}\n" + "\n".join(l for l in p.stdout.splitlines() if l.startswith(("HARNESS", "VIOLATION", "bucket", "  FAIL")))[:1500])
        ev = json.load(open(os.path.join(out, "evidence", f"{pid}.json")))
        for part in mod.PARTS:
            g = ev["coverage"]["parts"].get(part.name)
            if not g:
                continue
            need = part.min_nontrivial.get(a.tier, 0)
            if need:
                obs.setdefault((part.name, "<distinct non-trivial>", need), []).append(g["distinct_nontrivial"])
            for lab, share in shares.get(part.name, {}).items():
                obs.setdefault((part.name, lab, share), []).append(g["classes"].get(lab, 0) / max(1, g["evaluations"]))
    for (part, lab, thr), vals in obs.items():
        m = min(vals)
        rows.append((m / thr if thr else 9e9, pid, part, lab, thr, m, max(vals)))
    print(pid, "exit codes", rcs, flush=True)
rows.sort()
print("\nmargin  check/part  class  threshold  min  max")
for r in rows:
    print(f"{r[0]:6.2f}  {r[1]}/{r[2]}  {r[3]}  {r[4]}  {r[5]:.4g}  {r[6]:.4g}")
shutil.rmtree(a.out, ignore_errors=True)
