#!/venv/bin/python
"""Confirm and run a batch of independently written changes in parallel (development tool).

    tools/seed_process.py [--workers 4] [--seed 1] [--no-verify] [--checks C03,C07] <id> [<id> ...]

Per id (seeded/<id>/patch.diff + demo.py): a scratch worktree of /repo under /dev/shm (never /repo itself);
  1. demo passes on the clean tree   2. patch applies   3. repository suite passes with it   4. demo fails with it
  5. the quick check(s) of the property (or --checks) run against the scratch tree through PYTHONPATH, outputs under OPV_OUT.
Prints one block per id; removes every worktree.
"""
import argparse, multiprocessing as mp, os, re, shutil, subprocess, sys

ROOT = os.path.dirname(os.path.dirname(os.path.abspath(__file__)))
SCR = "/dev/shm/opv_seedproc"


def sh(cmd, **kw):
    return subprocess.run(cmd, stdout=subprocess.PIPE, stderr=subprocess.STDOUT, text=True, **kw)


def work(a):
    sid, checks, seed, verify, tier = a
    src = os.path.join(ROOT, "seeded", sid)
    wt = f"{SCR}/{sid}"
    sh(["git", "-C", "/repo", "worktree", "remove", "--force", wt])
    r = sh(["git", "-C", "/repo", "worktree", "add", "-q", "--detach", wt, "HEAD"])
    if r.returncode:
        return sid, "WORKTREE FAILED " + r.stdout, []
    lines = []
    try:
        env0 = dict(os.environ, PYTHONPATH=wt, PYTHONHASHSEED="0")
        if verify:
            c = sh(["/venv/bin/python", os.path.join(src, "demo.py")], cwd=wt, env=env0)
        a_ = sh(["git", "-C", wt, "apply", os.path.join(src, "patch.diff")])
        if a_.returncode:
            return sid, "PATCH DOES NOT APPLY: " + a_.stdout.strip()[:300], []
        status = ""
        if verify:
            s = sh(["/venv/bin/python", "-m", "pytest", "-q", "-p", "no:cacheprovider", "-x"], cwd=wt, env=env0)
            suite = s.stdout.strip().splitlines()[-1] if s.stdout.strip() else "?"
            p = sh(["/venv/bin/python", os.path.join(src, "demo.py")], cwd=wt, env=env0)
            ok = c.returncode == 0 and p.returncode != 0 and "passed" in suite and "failed" not in suite and "error" not in suite
            status = f"demo_clean_rc={c.returncode} suite='{suite}' demo_patched_rc={p.returncode} " + ("CONFIRMED" if ok else "NOT-CONFIRMED")
            if c.returncode:
                lines.append("  clean demo output: " + c.stdout.strip()[-400:])
        env = dict(env0, OPV_OUT=f"{SCR}/out_{sid}", VERIF_SEED=str(seed))
        for pid in checks:
            p = sh(["/venv/bin/python", "-m", "opv.check", pid, "--tier", tier], cwd=ROOT, env=env)
            nv = len(re.findall(r"^VIOLATION", p.stdout, flags=re.M))
            lines.append(f"== {pid} rc={p.returncode} {nv} violation line(s)")
            lines += [l[:260] for l in p.stdout.splitlines() if re.match(r"^(bucket|  FAIL|HARNESS|corpus case)", l)][:8]
        return sid, status, lines
    finally:
        sh(["git", "-C", "/repo", "worktree", "remove", "--force", wt])
        shutil.rmtree(f"{SCR}/out_{sid}", ignore_errors=True)


if __name__ == "__main__":
    ap = argparse.ArgumentParser()
    ap.add_argument("--workers", type=int, default=4)
    ap.add_argument("--seed", type=int, default=1)
    ap.add_argument("--tier", default="quick")
    ap.add_argument("--no-verify", action="store_true")
    ap.add_argument("--checks", default="")
    ap.add_argument("ids", nargs="+")
    a = ap.parse_args()
    os.makedirs(SCR, exist_ok=True)
    jobs = [(i, a.checks.split(",") if a.checks else [i[:3]], a.seed, not a.no_verify, a.tier) for i in a.ids]
    with mp.Pool(a.workers) as pool:
        for sid, status, lines in pool.imap(work, jobs):
            print(f"##### seed {sid} {status}")
            print("\n".join(lines))
            sys.stdout.flush()
    shutil.rmtree(SCR, ignore_errors=True)
    sh(["git", "-C", "/repo", "worktree", "prune"])
