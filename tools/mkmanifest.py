#!/usr/bin/env python3
"""Regenerate MANIFEST.json from the table below (keeps it schema-valid at all times)."""
import json
import os

ROOT = os.path.dirname(os.path.dirname(os.path.abspath(__file__)))
PY = "PYTHONHASHSEED=0 /venv/bin/python"

# additions of seeded rounds 5-7 (DESIGN.md section 11), appended to the level text
ADDENDA = {
    "C01": " Community / Region rooted trees included. Second part 'retarget' (300 quick / 8k thorough): one prepared zone tree is targeted through the exported steps, one stream of a unit-operation zone is exchanged, parents re-import, the tree is targeted again and every zone must report the exact cascade of the streams it holds now.",
    "C02": " One case in three switches on 1-3 analysis flags that add outputs only (unit-operation targeting, vertical GCC, assisted transfer, exergy, balanced curves off); Community / Region rooted trees included.",
    "C03": " One case in three switches on 1-3 analysis flags that add outputs only.",
    "C04": " In mixed ladders (glide levels, close levels) the lowest-grade level is decided on its own when it is isothermal and the coldest hot / hottest cold utility by supply temperature on both scales: LP over all duties with that duty maximised. One case in three switches on output-only analysis flags.",
    "C05": " One case in three switches on 1-3 analysis flags that add outputs only (e.g. the vertical GCC, which reads the same tables).",
    "C06": " Narrow double pinches (0.04-0.4 K apart) and the reporting-precision option DECIMAL_PLACES in {0, 1, 3}: which pinches are reported must not depend on it. One case in three switches on output-only analysis flags.",
    "C07": " Pipeline part: one case in three switches on output-only analysis flags.",
    "C08": " Tables with idle intervals (every populated heat-capacity column exactly zero) under sloping utility-type curves; a third of the tables carry all three heat-capacity pairs.",
    "C09": " Sites with a zone pinched at two temperatures with a bulge in between, Community / Region rooted trees, output-only analysis flags in one case of three.",
    "C10": " Path labels in non-canonical spellings (blanks, leading / trailing / doubled separators) with and without a user tree.",
    "C11": " A third of the pool problems are spelled with value-with-unit dictionaries (unit strings such as '\u00b0C'); root-labelled streams named like a zone.",
    "C12": " Zone renaming draws names with string-suffix pairs ('Plant' / 'Old Plant') and, in half of the cases, both twins carry an explicit zone tree with labels as full path, relative path or bare zone name.",
    "C13": " Community / Region rooted trees included.",
    "C14": " Community / Region rooted trees; in half of the cases the same payload object (plain dictionary, dictionary of schema objects, validated model) is analysed twice more and must reproduce the first result.",
    "C15": " Film coefficients of the reference come from the input, not from the reported utilities; a third of the problems spell each number independently as a bare float or a value-with-unit object; fractional cost parameters and service lives.",
    "C16": " Channel vu_mixed (every number independently bare or value-with-unit, unit spellings vary); user zone trees on the channels that can carry one; the same validated model analysed twice.",
    "C17": " Class small-span (enthalpy in a large unit, isolated points 1e-5..1e-4 K off a straight piece); integer-typed samples must give the same points as the same numbers as floats (decides the >10-breakpoint branch behind finding C17-F3 differentially).",
    "C18": " Duties from 5e-6 to 1e6; evaporating / condensing temperature snapped onto exactly 0 degC or whole degrees in a share of the cases.",
    "C19": " add(prevent_overwrite=False) on existing and new keys (explicit overwrite) in the collection machine.",
}

# pid -> (technique, level text, level note, design ref)
CHECKS = {
    "C01": (
        "Hypothesis @given problems; differential against an exact rational-arithmetic heat cascade per zone",
        "Generated-input search (2k quick / 60k thorough problems) comparing Qh, Qc, Qr of every zone of the returned tree, every uniquely named record and the table ends with an independent Fraction cascade over the streams labelled into that zone; classes (pinched, thresholds, only-hot/cold, isothermal, coincident breakpoints, multi-zone) each hold a measured minimum share.",
        "Reference cascade is exact; temperatures on a 1e-3 K grid (>=3.3e-4 K apart) so exact and tolerance-based notions of a breakpoint coincide; label-safe zone sets.",
        "DESIGN.md section 5 C01",
    ),
    "C02": (
        "Hypothesis @given problems x utility sets; first-law invariants recomputed from the input streams",
        "Generated-input search (2.4k quick / 40k thorough) checking Qh-Qc, Qr, non-negativity and the utility-list net duty of every DI, Total-Process and Total-Site target and record against sums recomputed from the input streams.",
        "Sums are exact fractions of the inputs; one known finding (default CU suppressed by the real-scale coverage test) is excluded by an input-only predicate.",
        "DESIGN.md section 5 C02",
    ),
    "C03": (
        "Hypothesis @given problems x utility ladders; closure invariants + reachability against the exact pocket-free envelope",
        "Generated-input search (1.5k quick / 40k thorough) over stream sets x utility sets (none, 1-3 levels per side, Both, glide, inactive): per DI target the hot/cold duties sum to the exact Qh/Qc, are non-negative, are assigned on the levels that were supplied (documented isothermal expansion, own contribution), sit beyond the exact pinch and below the exact pocket-free GCC at their supply level; Total-Process utilities equal the per-position, per-name sum over child zones.",
        "Exact cascade and envelope are the reference; reachability is a necessary condition only (C04 decides the full profile); R6 finding excluded by an input-only predicate.",
        "DESIGN.md section 5 C03",
    ),
    "C04": (
        "Hypothesis @given problems x ladders; utility GCC rebuilt from reported duties vs exact pocket-free envelope, and lexicographic LP (HiGHS) optimum",
        "Generated-input search (1k quick / 25k thorough): (a) for every ladder the harness rebuilds U(T) from reported duties and utility temperatures and checks 0 <= U <= exact pocket-free GCC at every breakpoint of both curves, plus the table's own H_net_ut column (within [0, H_net_actual] and equal to the rebuilt U(T) row by row); (b) for isothermal ladders with levels >= 1 K apart and unambiguous grade order the duties must equal an independent lexicographic LP optimum.",
        "Exact envelope from the Fraction cascade; HiGHS trusted as optimiser; optimality only claimed where real and shifted level orders agree.",
        "DESIGN.md section 5 C04",
    ),
    "C05": (
        "Hypothesis @given problems; per-row differential of both problem tables against exact heat-content functions and exact interval CP sums",
        "Generated-input search (1k + 1.5k quick / 30k + 40k thorough; part service and part direct = get_process_heat_cascade called with harness-built Stream objects, all_streams omitted / given / reversed, then further temperatures inserted into the finished tables): every row of the shifted and the real table of every DI target is compared with the exact hot/cold heat content below T (cold offset = Qc), spans, ends, sign and zero of H_net, and the dT / CP / dH bookkeeping of every interval, including rows inserted by projection, pocket cutting and utility levels.",
        "Tables are exposed after the pipeline's 4-dp rounding; tolerances are derived from that rounding and the local CP.",
        "DESIGN.md section 5 C05",
    ),
    "C06": (
        "Hypothesis @given problems (incl. matched CP bands, balanced and threshold shapes); oracle = exact zero set of the rational residual",
        "Generated-input search (1.5k quick / 40k thorough): reported hot/cold pinch (target attributes and record temp_pinch) must equal max/min of the exact zero set with the run touching a utility-free end replaced by its process-side end; ordering and presence checked.",
        "Cases with an exact non-zero residual below 1e-4 at a breakpoint are skipped and counted (absolute zero test of the code).",
        "DESIGN.md section 5 C06",
    ),
    "C07": (
        "Hypothesis @given GCC shapes (direct calls) and problems (pipeline); oracle = exact running-minimum envelope with exact closure temperatures",
        "Generated-input search (5k+500 quick / 200k+10k thorough): H_net_np as a piecewise-linear function equals the exact envelope at all breakpoints and interval mid-points, H_net unchanged, inserted rows = exact closure temperatures (no more, no fewer), load profiles monotone, zero at the pinch side, ending in Qh / Qc; targeted search on the number of closures.",
        "Direct shapes respect the routine's preconditions (H >= 0, a zero, quarter-integer enthalpies so nothing sits in the tolerance band).",
        "DESIGN.md section 5 C07",
    ),
    "C08": (
        "Hypothesis RuleBasedStateMachine over insertion histories; model = piecewise-linear column functions + CP step functions + expected row set",
        "Stateful model-based search (1.5k machines x <=12 steps quick / 40k x <=30 thorough): after every insertion call (list, scalar, re-insert, empty; above/below/inside, several per interval, duplicates, within-tolerance, unsorted) all populated curve columns equal the initial piecewise-linear functions, NaN columns stay NaN, rows strictly descending, widths = gap above, CP = interval CP, dH = CP x width, return value = rows added.",
        "Requested temperatures avoid the ambiguous band around the 1e-6 tolerance; first-row width not asserted (pinned by a unit test).",
        "DESIGN.md section 5 C08",
    ),
    "C09": (
        "Hypothesis @given multi-zone sites (incl. source/sink zones with an intermediate Both level); algebraic relations between reported records",
        "Generated-input search (1k quick / 25k thorough): Total-Process = sum of child zones' DI targets (values, exact zonal cascades, each utility by name); site DI <= Total-Site <= Total-Process for Qh and Qc; Qr_TS = Qr_TZ + (Qh_TZ - Qh_TS). A measured share of cases has a Both level between a source and a sink zone and shows actual recovery.",
        "Inequality directions are thermodynamic facts; no closed-form TS optimum is assumed; R6 finding excluded by an input-only predicate.",
        "DESIGN.md section 5 C09",
    ),
    "C10": (
        "Hypothesis @given hostile label sets (with / without user tree); counting oracle over the zone tree by component-wise prefix rule",
        "Generated-input search (3k quick / 100k thorough) over flat / deep / suffix / prefix / O<n>-clashing / root-name / empty labels and duplicate stream names: every zone of prepare_problem()'s tree and of the service's tree must hold exactly the multiset of streams labelled into it (hot and cold separately), unit-operation children partition the exactly-labelled streams, utilities are per-zone copies with equal values.",
        "Streams identified by value tuples; three known findings (O<n> name extending a label, label on a non-leaf user node, ambiguous suffix) excluded by input-only predicates.",
        "DESIGN.md section 5 C10",
    ),
    "C11": (
        "Hypothesis RuleBasedStateMachine over call histories; oracle = one-shot forked pristine process per call, input snapshots, module-state fingerprint",
        "Stateful search (240 histories x <=6 calls quick / 5k x <=10 thorough): service calls with dicts, reused and fresh models, PinchProblem load / target / target-again / export, re-load of another problem and of one model edited in place on the same wrapper, over a pool of different problems; after every call the result dump must equal that of a process that ran only this call, the caller's input must be unchanged, earlier results unchanged and the OpenPinch.* module fingerprint (globals, class attributes, function defaults) identical. A sample of problems is also run in genuinely fresh interpreters to validate the fork proxy.",
        "Fork proxy assumption (validated on 4 / 48 fresh interpreters per run); state outside OpenPinch.* is not fingerprinted.",
        "DESIGN.md section 5 C11",
    ),
    "C12": (
        "Hypothesis @given problem x transformation; metamorphic relations between the two service results",
        "Generated-input search (2.4k quick / 40k thorough pairs; bases incl. GCC-shaped multi-pocket stream sets, glide ladders and loop sites): permutation, split at an interior temperature, parallel branches, translation, duty scaling, zone renaming and temperature-axis mirroring; Qh, Qc, Qr, every utility duty by name, pinch temperatures (shifted / negated-and-swapped) for DI, Total-Process and Total-Site records, and the composite / balanced / grand composite / total-site graph curves where the transformation leaves them unchanged.",
        "Pairs with an exact residual or enthalpy step below 1e-4 x total duty are skipped and counted; ladders have levels >= 1 K apart; the R6 asymmetry is excluded by its input-only predicate.",
        "DESIGN.md section 5 C12",
    ),
    "C13": (
        "Hypothesis @given problems x graph options; geometric differential (Chebyshev point-to-polyline) between emitted graphs and the stored table slices",
        "Generated-input search (800 quick / 20k thorough): every emitted point is a table row within display rounding and in order, every table row of the non-flat extent lies within 0.011 of the emitted polyline, segment colours follow the sign of the enthalpy change without mixed-sign segments, extents equal stream duties / Qh / Qc / summed and assigned zonal utility duties (total-site profiles), the table stored behind each emitted graph is a column-by-column slice of the target's own problem table, and graph-set keys, names and types are as documented for every target incl. total-site sets.",
        "The target's own problem tables are the reference (their correctness is C05/C07); records with non-unique names are skipped.",
        "DESIGN.md section 5 C13",
    ),
    "C14": (
        "Hypothesis @given widest valid inputs x option combinations; validity predicate (no exception, schema round-trip, JSON, finiteness, record count, temperature envelope, repeatability)",
        "Generated-input search (1.2k quick / 40k thorough + a small heat-pump-option campaign): degenerate but legal shapes (single stream, only hot / cold, isothermal, zero contributions, duplicate names, unused utilities, value-with-unit numbers, explicit tree) crossed with the wired analysis flags and numeric options; exceptions are bucketed by type and innermost OpenPinch frame so each root cause is reported once.",
        "Turbine options are excluded as unsupported (their parameters are commented out of Configuration); five known findings (indirect process targeting, area targeting at zero approach / with unallocated CU, process and utility heat-pump targeting) are excluded by input-only predicates.",
        "DESIGN.md section 5 C14",
    ),
    "C15": (
        "Hypothesis @given problems with area targeting on; independent Bath-formula reference, cost-law identities on direct calls",
        "Generated-input search (800+2k quick / 20k+50k thorough): balanced curves have equal spans; the area target equals a Bath sum the harness computes itself from the streams and the reported utility duties (enthalpy intervals, duty-weighted film resistances, counter-current LMTD; 1e-4 relative) and is finite and positive; capital = N(a+b(A/N)^c), annualised = capital x CRF with the annuity identity, both strictly increasing in area.",
        "Utility duties and temperatures on the target are taken as given (C03/C04 decide them); duties >= 50 kW because the routine rounds to 6 dp internally.",
        "DESIGN.md section 5 C15",
    ),
    "C16": (
        "Hypothesis @given problem x channel set x wrapper call sequence (differential across channels); sheet-name predicate on generated label sets",
        "Generated-input search (160 problems x 3-5 channels quick / 4k thorough, plus 3k / 100k sheet-label sets): plain dict, validated model, value-with-unit dict, JSON file, CSV directory, CSV pair, XLSX workbook and PinchProblem.from_json must give the targets of the plain-dict call exactly (after the root name and the workbook reader's documented label normalisation); target() is cached, also after the same wrapper has loaded and targeted another problem (other file, same path rewritten, model); exported and directly allocated sheet names are unique, <= 31 characters and free of forbidden characters.",
        "Input files are written by the harness in the template layout; file channels carry no options or 'active' flags.",
        "DESIGN.md section 5 C16",
    ),
    "C17": (
        "Hypothesis @given polylines (targeted on deviation); geometric oracle (point-to-polyline distance, one-sided bound) written in the harness",
        "Generated-input search (3k+400 quick / 100k+10k thorough): clean_composite_curve must return a subsequence covering the whole non-flat extent with every dropped point within 1e-6 of the kept polyline; get_piecewise_data_points must keep both ends and the original order, leave every original point within the requested deviation and respect the hot/cold one-sided bound of a tenth of it.",
        "Three known findings (neighbour-by-neighbour drift; one-sided bound not enforced for <= 10 breakpoints; SLSQP refinement returns unordered points) are excluded by input/reference-only predicates, which removes about half of the generated cases from the failing assertions only.",
        "DESIGN.md section 5 C17",
    ),
    "C18": (
        "Hypothesis @given fluid x operating point x request order; first/second-law identities with CoolProp's PropsSI as second opinion",
        "Generated-input search (2k quick / 60k thorough) over ~120 CoolProp fluids, evaporating/condensing temperatures across the two-phase range (lift from 0.5 K), superheat, subcooling, efficiency, duty and every order of condenser/evaporator stream requests: energy balance, positive work, COP relation, entropy non-decrease in compression and throttling, isenthalpic throttle, saturation pressures, emitted stream duties, monotonicity and order independence.",
        "Conditional on solve() succeeding; points with Psat < 1 kPa or where CoolProp's interfaces disagree are skipped and counted; two known findings (degenerate cycles without evaporation / with liquid discharge) excluded by PropsSI-based predicates.",
        "DESIGN.md section 5 C18",
    ),
    "C19": (
        "two Hypothesis RuleBasedStateMachines (stream setters; collection operations) against explicit models",
        "Stateful model-based search (2 x 1.5k machines x <=12 steps quick / 2 x 50k x <=30 thorough): stream invariants (CP x span = duty, min <= max, bounds = supply/target, type and shift direction follow the temperatures, htr = 1/htc) after every setter incl. flips and equality; collection vs model list (identity-exact membership, len, iteration = permutation monotone in the sort key, index, contains, remove of absent raises KeyError, concatenation keeps both operands, replace keeps all members).",
        "Members are not mutated while inside a collection (not claimed by the property); ties in the sort key may come in any order.",
        "DESIGN.md section 5 C19",
    ),
    "C20": (
        "Hypothesis @given over arrangement x label form x (NTU, c, passes): round-trip, bound, limit and symmetry oracles",
        "Generated-input search (12k quick / 600k thorough cases, 16 shards) against round-trip, counter-flow bound (independent formula), c=0 limit, monotonicity and LMTD bound/symmetry/refusal oracles; scalar float domain is sampled densely with 0/1 boosted, so a wrong formula or dispatch shows within seconds; absence is not proven.",
        "Trusts the harness's own counter-flow formula and CPython math; cross-flow both-mixed is asserted on its increasing branch only; one known finding (CrFUU series) excluded by class.",
        "DESIGN.md section 5 C20",
    ),
}

NOT_YET = {}


def main():
    props = [json.loads(l) for l in open(os.path.join(ROOT, "properties.jsonl"))]
    checks, na = [], []
    for p in props:
        pid = p["id"]
        if pid in CHECKS:
            tech, text, note, ref = CHECKS[pid]
            checks.append(
                {
                    "property_id": pid,
                    "quick_cmd": f"{PY} -m opv.check {pid} --tier quick",
                    "thorough_cmd": f"{PY} -m opv.check {pid} --tier thorough",
                    "evidence_file": f"evidence/{pid}.json",
                    "replay_cmd_template": f"{PY} -m opv.check {pid} --replay {{path}}",
                    "engine": "opv",
                    "level_claimed": {"category": "exploration", "text": text + ADDENDA.get(pid, ""), "design_ref": ref},
                    "level_note": note,
                    "technique": tech,
                }
            )
        else:
            na.append({"property_id": pid, "reason": NOT_YET.get(pid, "check not built yet in this session (planned, see DESIGN.md section 5); not a statement that the technique cannot apply")})
    man = {
        "version": 1,
        "setup_cmd": "(/venv/bin/python -c 'import hypothesis' 2>/dev/null || /venv/bin/pip install --no-index --find-links /opt/veriftools/wheels hypothesis) && (/venv/bin/pip install -q --no-index --find-links /opt/veriftools/wheels --target /verif/.deps atheris || echo 'atheris not installed: coverage-guided supplement skipped')",
        "hooks": {
            "guard": "OPENPINCH_VERIF",
            "enable": "no source hooks are needed: every property is observed through public return values (pinch_analysis_service(..., is_return_full_results=True) returns the analysed Zone tree); the guard is unused",
            "baseline_off_cmd": "cd /repo && /venv/bin/python -m pytest -ra -q -p no:cacheprovider --timeout=900 --continue-on-collection-errors",
            "source_commits": [],
            "add_only": True,
        },
        "engines": [
            {
                "name": "opv",
                "path": "opv/",
                "serves_properties": sorted(CHECKS),
                "kind_free_text": "Hypothesis 6.168 property-based testing harness: sharded @given / RuleBasedStateMachine campaigns, collect-then-shrink failure bucketing, independent reference models (opv/ref), known-findings matcher, evidence writer",
            }
        ],
        "checks": checks,
        "not_applicable": na,
        "notes": "All commands run with cwd=/verif against /repo's working tree (editable install in /venv). VERIF_SEED selects the Hypothesis seeds; exit 2 = harness error (never a violation). Known findings: known_findings.json.",
    }
    with open(os.path.join(ROOT, "MANIFEST.json"), "w") as fh:
        json.dump(man, fh, indent=1)
    print(f"{len(checks)} checks, {len(na)} not applicable")


if __name__ == "__main__":
    main()
