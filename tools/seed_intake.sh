#!/bin/bash
# usage: tools/seed_intake.sh <Cxx> <suffix> <srcdir> <check> [check...]
#   copy an independently written change into seeded/<Cxx><suffix>/, confirm it in a scratch worktree, run the named quick checks against it
p=$1; suf=$2; src=$3; shift 3
id=$p$suf
mkdir -p seeded/$id
cp $src/patch.diff $src/demo.py seeded/$id/ || exit 9
[ -f $src/notes.md ] && cp $src/notes.md seeded/$id/
tools/seed_verify.sh $id /verif/seeded/$id | tail -2
tools/seed_run.sh $id "$@"
