#!/usr/bin/env python3
"""tools/keep.py <replay.json> <corpus-name> <note...>  — copy a replay into corpus/<pid>/<name>.json"""
import json, os, sys
ROOT = os.path.dirname(os.path.dirname(os.path.abspath(__file__)))
d = json.load(open(sys.argv[1]))
pid = d["property"]
os.makedirs(os.path.join(ROOT, "corpus", pid), exist_ok=True)
out = {"property": pid, "part": d["part"], "case": d["case"], "note": " ".join(sys.argv[3:])}
p = os.path.join(ROOT, "corpus", pid, sys.argv[2] + ".json")
json.dump(out, open(p, "w"), indent=1, sort_keys=True)
print(p)
