#!/bin/bash
# usage: tools/seed_run.sh <id> <Cxx> [Cxx...]  -- run quick checks against seeded/<id>/patch.diff applied to /repo
id=$1; shift
echo "##### seed $id -> $*"
tools/audit.sh seeded/$id/patch.diff "$@" 2>&1 | grep "^==\|does not apply\|dirty"
