#!/venv/bin/python
"""Mutation analysis of the anchored code (development tool, not a registered check).

For every property, the functions named in its code anchors are mutated one edit at a time
(comparison boundaries, +/-, and/or, small constants, hot/cold - min/max - supply/target
identifier swaps, swapped call arguments, dropped statements).  Each mutant is written into a
scratch worktree of /repo (never into /repo), the repository's own test suite is run on it, and
if the suite stays green the quick check(s) of the properties that anchor the function are run
against the scratch tree (PYTHONPATH).  A mutant that survives both is either equivalent or a
blind spot of the check: the list of survivors is what a human reads.

    tools/mutation.py --props C05,C08 --per-func 12 --workers 5 --out mutation/run1.jsonl

Nothing here is needed by the registered commands; scratch trees live under /tmp/opv_mut and
are removed at the end.
"""
from __future__ import annotations

import argparse
import ast
import copy
import json
import multiprocessing as mp
import os
import random
import re
import shutil
import subprocess
import sys
import time

ROOT = os.path.dirname(os.path.dirname(os.path.abspath(__file__)))
REPO = "/repo"
PY = "/venv/bin/python"
SCRATCH = "/tmp/opv_mut"


# ----------------------------------------------------------------------------- anchors
def anchors():
    """{(file, function name)} -> [property ids]"""
    out = {}
    for line in open(os.path.join(ROOT, "properties.jsonl")):
        d = json.loads(line)
        pid = d["id"]
        an = (d.get("code_anchors") or {}).get("anchors") or d.get("anchors") or {}
        for m in an.get("mechanism", []) + an.get("state", []):
            cur = None
            for mm in re.finditer(r"(OpenPinch/[\w/]+\.py)?:(\d+)(?:-(\d+))?(?:\s+([A-Za-z_]\w*))?", m["where"]):
                cur = mm.group(1) or cur
                if not cur:
                    continue
                out.setdefault((cur, mm.group(4), int(mm.group(2))), set()).add(pid)
    return out


def resolve(tree, name, line):
    """Function nodes of the module that the anchor means."""
    funcs = [n for n in ast.walk(tree) if isinstance(n, (ast.FunctionDef, ast.AsyncFunctionDef))]
    if name:
        hit = [f for f in funcs if f.name == name]
        if hit:
            return hit
    enclosing = [f for f in funcs if f.lineno - 15 <= line <= (f.end_lineno or f.lineno) + 15]
    enclosing.sort(key=lambda f: (f.end_lineno - f.lineno))
    return enclosing[:1]


# ----------------------------------------------------------------------------- mutation operators
CMP = {ast.Lt: ast.LtE, ast.LtE: ast.Lt, ast.Gt: ast.GtE, ast.GtE: ast.Gt, ast.Eq: ast.NotEq, ast.NotEq: ast.Eq}
CMP2 = {ast.Lt: ast.Gt, ast.Gt: ast.Lt, ast.LtE: ast.GtE, ast.GtE: ast.LtE}
BIN = {ast.Add: ast.Sub, ast.Sub: ast.Add, ast.Mult: ast.Div, ast.Div: ast.Mult}
SWAPS = [("hot", "cold"), ("min", "max"), ("supply", "target"), ("upper", "lower"), ("top", "bottom"), ("above", "below"), ("first", "last"), ("HOT", "COLD"), ("Hot", "Cold"), ("MIN", "MAX")]


def swap_ident(s):
    for a, b in SWAPS:
        if a in s:
            return s.replace(a, b, 1)
        if b in s:
            return s.replace(b, a, 1)
    return None


def sites(func):
    """[(description, mutate(node_copy_root) -> None)] addressed by the index of the node in ast.walk order."""
    out = []
    nodes = list(ast.walk(func))
    for idx, n in enumerate(nodes):
        ln = getattr(n, "lineno", None)
        if isinstance(n, ast.Compare):
            for k, op in enumerate(n.ops):
                if type(op) in CMP:
                    out.append((idx, f"L{ln} compare {type(op).__name__}->{CMP[type(op)].__name__}", ("cmp", k, CMP[type(op)])))
                if type(op) in CMP2:
                    out.append((idx, f"L{ln} compare {type(op).__name__}->{CMP2[type(op)].__name__}", ("cmp", k, CMP2[type(op)])))
        elif isinstance(n, ast.BinOp) and type(n.op) in BIN:
            out.append((idx, f"L{ln} binop {type(n.op).__name__}->{BIN[type(n.op)].__name__}", ("bin", BIN[type(n.op)])))
        elif isinstance(n, ast.AugAssign) and type(n.op) in BIN:
            out.append((idx, f"L{ln} augassign {type(n.op).__name__}->{BIN[type(n.op)].__name__}", ("bin", BIN[type(n.op)])))
            out.append((idx, f"L{ln} drop augmented assignment", ("drop",)))
        elif isinstance(n, ast.BoolOp):
            out.append((idx, f"L{ln} boolop {type(n.op).__name__} swapped", ("bool",)))
        elif isinstance(n, ast.UnaryOp) and isinstance(n.op, (ast.USub, ast.Not)):
            out.append((idx, f"L{ln} unary {type(n.op).__name__} removed", ("unary",)))
        elif isinstance(n, ast.Constant) and not isinstance(n.value, (str, bytes)) and n.value is not None and n.value is not Ellipsis:
            v = n.value
            if isinstance(v, bool):
                out.append((idx, f"L{ln} constant {v}->{not v}", ("const", not v)))
            elif isinstance(v, int) and abs(v) <= 12:
                out.append((idx, f"L{ln} constant {v}->{v + 1}", ("const", v + 1)))
                out.append((idx, f"L{ln} constant {v}->{v - 1}", ("const", v - 1)))
            elif isinstance(v, float):
                out.append((idx, f"L{ln} constant {v}->{v * 2 if v else 1.0}", ("const", v * 2 if v else 1.0)))
                if v:
                    out.append((idx, f"L{ln} constant {v}->0.0", ("const", 0.0)))
        elif isinstance(n, ast.Name) and isinstance(n.ctx, ast.Load) and swap_ident(n.id):
            out.append((idx, f"L{ln} name {n.id}->{swap_ident(n.id)}", ("name", swap_ident(n.id))))
        elif isinstance(n, ast.Attribute) and isinstance(n.ctx, ast.Load) and swap_ident(n.attr):
            out.append((idx, f"L{ln} attribute .{n.attr}->.{swap_ident(n.attr)}", ("attr", swap_ident(n.attr))))
        elif isinstance(n, ast.Call) and len(n.args) >= 2 and not any(isinstance(a, ast.Starred) for a in n.args[:2]):
            out.append((idx, f"L{ln} call {ast.unparse(n.func)[:30]}: first two arguments swapped", ("swapargs",)))
        elif isinstance(n, ast.Expr) and isinstance(n.value, ast.Call):
            out.append((idx, f"L{ln} drop call statement {ast.unparse(n.value.func)[:40]}", ("drop",)))
        elif isinstance(n, ast.If):
            out.append((idx, f"L{ln} if-condition negated", ("ifnot",)))
        elif isinstance(n, ast.Subscript) and isinstance(n.slice, ast.Slice):
            sl = n.slice
            if sl.lower is not None:
                out.append((idx, f"L{ln} slice lower bound +1", ("slice", "lower", 1)))
            if sl.upper is not None:
                out.append((idx, f"L{ln} slice upper bound -1", ("slice", "upper", -1)))
    return out


def apply(func_copy, idx, action):
    n = list(ast.walk(func_copy))[idx]
    kind = action[0]
    if kind == "cmp":
        n.ops[action[1]] = action[2]()
    elif kind == "bin":
        n.op = action[1]()
    elif kind == "bool":
        n.op = ast.Or() if isinstance(n.op, ast.And) else ast.And()
    elif kind == "unary":
        return ("replace", n, n.operand)
    elif kind == "const":
        n.value = action[1]
    elif kind == "name":
        n.id = action[1]
    elif kind == "attr":
        n.attr = action[1]
    elif kind == "swapargs":
        n.args[0], n.args[1] = n.args[1], n.args[0]
    elif kind == "drop":
        return ("replace", n, ast.Pass())
    elif kind == "ifnot":
        n.test = ast.UnaryOp(op=ast.Not(), operand=n.test)
    elif kind == "slice":
        cur = getattr(n.slice, action[1])
        setattr(n.slice, action[1], ast.BinOp(left=cur, op=ast.Add(), right=ast.Constant(action[2])))
    return None


class _Replacer(ast.NodeTransformer):
    def __init__(self, old, new):
        self.old, self.new = old, new

    def generic_visit(self, node):
        super().generic_visit(node)
        return node

    def visit(self, node):
        if node is self.old:
            return self.new
        return super().visit(node)


def mutated_source(src, func_name, func_line, idx, action):
    tree = ast.parse(src)
    target = next(f for f in ast.walk(tree) if isinstance(f, (ast.FunctionDef, ast.AsyncFunctionDef)) and f.name == func_name and f.lineno == func_line)
    r = apply(target, idx, action)
    if r:
        _, old, new = r
        _Replacer(old, new).visit(tree)
    ast.fix_missing_locations(tree)
    return ast.unparse(tree)


# ----------------------------------------------------------------------------- execution
def sh(cmd, cwd, env=None, timeout=900):
    try:
        p = subprocess.run(cmd, cwd=cwd, env=env, stdout=subprocess.PIPE, stderr=subprocess.STDOUT, timeout=timeout, text=True)
        return p.returncode, p.stdout
    except subprocess.TimeoutExpired:
        return 124, "timeout"


def worker(args):
    k, jobs, shards = args
    wt = f"{SCRATCH}/w{k}"
    outd = f"{SCRATCH}/out{k}"
    subprocess.run(["git", "-C", REPO, "worktree", "remove", "--force", wt], stdout=subprocess.DEVNULL, stderr=subprocess.DEVNULL)
    subprocess.run(["git", "-C", REPO, "worktree", "add", "-q", "--detach", wt, "HEAD"], check=True)
    results = []
    for job in jobs:
        path = os.path.join(wt, job["file"])
        orig = open(path).read()
        t0 = time.time()
        try:
            new = mutated_source(orig, job["func"], job["func_line"], job["idx"], tuple(job["action"]))
            compile(new, path, "exec")
            import difflib

            job["diff"] = [l.strip()[:200] for l in difflib.unified_diff(ast.unparse(ast.parse(orig)).splitlines(), new.splitlines(), lineterm="", n=0) if l[:1] in "+-" and l[:3] not in ("+++", "---")][:4]
        except Exception as e:  # noqa: BLE001
            job.update(status="invalid", detail=repr(e)[:200])
            results.append(job)
            continue
        try:
            open(path, "w").write(new)
            rc, log = sh([PY, "-m", "pytest", "-q", "-x", "-p", "no:cacheprovider"], wt, timeout=600)
            if rc != 0:
                job.update(status="killed-by-suite", detail=(log.strip().splitlines() or [""])[-1][:160])
            else:
                env = dict(os.environ, PYTHONPATH=wt, OPV_OUT=outd, OPV_SHARDS=str(shards), OPV_NO_SHRINK="1", PYTHONHASHSEED="0")
                verdicts = {}
                for pid in job["props"]:
                    rc, log = sh([PY, "-m", "opv.check", pid, "--tier", "quick"], ROOT, env=env, timeout=2400)
                    b = re.findall(r"^bucket (\S+)", log, flags=re.M)
                    verdicts[pid] = {"rc": rc, "buckets": b[:5]} if rc != 2 else {"rc": rc, "buckets": b[:5], "tail": log[-400:]}
                job["verdicts"] = verdicts
                job["status"] = "killed-by-check" if any(v["rc"] == 1 for v in verdicts.values()) else ("harness" if any(v["rc"] == 2 for v in verdicts.values()) else "survived")
        finally:
            open(path, "w").write(orig)
        job["seconds"] = round(time.time() - t0, 1)
        results.append(job)
        with open(f"{SCRATCH}/progress{k}.jsonl", "a") as fh:
            fh.write(json.dumps(job) + "\n")
    subprocess.run(["git", "-C", REPO, "worktree", "remove", "--force", wt], stdout=subprocess.DEVNULL, stderr=subprocess.DEVNULL)
    shutil.rmtree(outd, ignore_errors=True)
    return results


def main():
    ap = argparse.ArgumentParser()
    ap.add_argument("--props", default="")
    ap.add_argument("--per-func", type=int, default=12)
    ap.add_argument("--workers", type=int, default=5)
    ap.add_argument("--shards", type=int, default=3)
    ap.add_argument("--seed", type=int, default=1)
    ap.add_argument("--out", required=True)
    ap.add_argument("--list", action="store_true")
    ap.add_argument("--ops", default="", help="comma separated operator kinds to keep (cmp,bin,bool,unary,const,name,attr,swapargs,drop,ifnot,slice)")
    ap.add_argument("--skip", default="", help="comma separated earlier result files whose mutants are not repeated")
    a = ap.parse_args()
    want = set(p for p in a.props.split(",") if p)
    rng = random.Random(a.seed)
    jobs = []
    seen_funcs = {}
    done = set()
    for fn in [x for x in a.skip.split(",") if x]:
        for line in open(os.path.join(ROOT, fn)):
            j = json.loads(line)
            done.add((j["file"], j["func"], j["func_line"], j["idx"], repr(tuple(j["action"]))))
    for (file, name, line), pids in sorted(anchors().items(), key=lambda kv: (kv[0][0], kv[0][2])):
        if want and not (pids & want):
            continue
        path = os.path.join(REPO, file)
        if not os.path.exists(path):
            continue
        src = open(path).read()
        tree = ast.parse(src)
        for f in resolve(tree, name, line):
            key = (file, f.name, f.lineno)
            if key in seen_funcs:
                seen_funcs[key] |= pids
                continue
            seen_funcs[key] = set(pids)
    for (file, fname, fline), pids in sorted(seen_funcs.items()):
        src = open(os.path.join(REPO, file)).read()
        tree = ast.parse(src)
        f = next(x for x in ast.walk(tree) if isinstance(x, (ast.FunctionDef, ast.AsyncFunctionDef)) and x.name == fname and x.lineno == fline)
        ss = sites(f)
        if a.ops:
            ss = [x for x in ss if x[2][0] in a.ops.split(",")]
        ss = [x for x in ss if (file, fname, fline, x[0], repr(tuple(y if not isinstance(y, type) else y.__name__ for y in x[2]))) not in done]
        rng.shuffle(ss)
        props = sorted(pids & want) if want else sorted(pids)
        for idx, desc, action in ss[: a.per_func]:
            jobs.append({"file": file, "func": fname, "func_line": fline, "idx": idx, "desc": desc, "action": list(action[:1]) + [x if not isinstance(x, type) else x.__name__ for x in action[1:]], "props": props})
    # actions carry AST classes: re-encode for the workers
    for j in jobs:
        act = j["action"]
        if act[0] == "cmp":
            j["action"] = ["cmp", act[1], act[2]]
        elif act[0] == "bin":
            j["action"] = ["bin", act[1]]
    if a.list:
        for j in jobs:
            print(j["props"], j["file"], j["func"], j["desc"])
        print(len(jobs), "mutants over", len(seen_funcs), "functions")
        return
    os.makedirs(SCRATCH, exist_ok=True)
    rng.shuffle(jobs)
    chunks = [(k, jobs[k :: a.workers], a.shards) for k in range(a.workers)]
    with mp.Pool(a.workers) as pool:
        res = pool.map(worker, chunks)
    flat = [j for r in res for j in r]
    os.makedirs(os.path.dirname(os.path.join(ROOT, a.out)), exist_ok=True)
    with open(os.path.join(ROOT, a.out), "w") as fh:
        for j in sorted(flat, key=lambda j: (j["file"], j["func"], j["desc"])):
            fh.write(json.dumps(j) + "\n")
    import collections

    c = collections.Counter(j["status"] for j in flat)
    print(dict(c))
    shutil.rmtree(SCRATCH, ignore_errors=True)


# workers receive class names as text
_CLS = {c.__name__: c for c in list(CMP) + list(CMP.values()) + list(BIN) + list(BIN.values())}
_orig_apply = apply


def apply(func_copy, idx, action):  # noqa: F811
    action = tuple(_CLS.get(x, x) if isinstance(x, str) and x in _CLS else x for x in action)
    return _orig_apply(func_copy, idx, action)


if __name__ == "__main__":
    main()
