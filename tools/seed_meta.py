#!/venv/bin/python
"""tools/seed_meta.py <runlog> <id> [<id> ...]  -- write seeded/<id>/meta.json from notes.md and a tools/seed_process.py log (development tool)."""
import json, os, re, sys
ROOT = os.path.dirname(os.path.dirname(os.path.abspath(__file__)))
log = open(sys.argv[1]).read()
blocks = {m.group(1): m.group(0) for m in re.finditer(r"^##### seed (\S+) .*?(?=^##### seed |\Z)", log, flags=re.S | re.M)}


def section(notes, *heads):
    for h in heads:
        m = re.search(r"^#+\s*[^\n]*" + h + r"[^\n]*\n(.*?)(?=^#+\s|\Z)", notes, flags=re.S | re.M | re.I)
        if m and m.group(1).strip():
            t = re.sub(r"```.*?```", " ", m.group(1), flags=re.S)
            t = re.sub(r"\s+", " ", t).strip()
            return t[:420] + (" ..." if len(t) > 420 else "")
    return ""


for sid in sys.argv[2:]:
    d = os.path.join(ROOT, "seeded", sid)
    notes = open(os.path.join(d, "notes.md")).read()
    b = blocks.get(sid, "")
    head = b.splitlines()[0] if b else ""
    conf = re.search(r"demo_clean_rc=(\d+) suite='([^']*)' demo_patched_rc=(\d+) (\S+)", head)
    checks = re.findall(r"^== (C\d\d) rc=(\d+)", b, flags=re.M)
    buckets = re.findall(r"^bucket (\S+)", b, flags=re.M)
    caught = [f"{p} exit {rc}" for p, rc in checks]
    meta = {
        "id": sid,
        "property": sid[:3],
        "change": section(notes, "change", "what was changed", "the change") or notes[:300],
        "needs": section(notes, "needs", "manifest", "what it breaks", "input must look", "breaks") or "",
        "confirmed": (f"{'yes' if conf and conf.group(4) == 'CONFIRMED' else 'NO'}: tools/seed_process.py (clean demo rc {conf.group(1)}, repository suite '{conf.group(2)}' with the patch, demo rc {conf.group(3)} with the patch)" if conf else "not run"),
        "caught_by": "; ".join(caught) + (" (" + ", ".join(dict.fromkeys(buckets)) + ")" if buckets else ""),
        "ran": [f"tools/seed_process.py {sid}  (scratch worktree of /repo under /dev/shm: demo on the clean tree, git apply, repository suite, demo, quick check through PYTHONPATH; worktree removed)"],
    }
    old = os.path.join(d, "meta.json")
    if os.path.exists(old):
        o = json.load(open(old))
        for k in ("change", "needs"):
            if o.get(k) and "--keep" in os.environ.get("SEED_META", "--keep"):
                meta[k] = o[k]
    json.dump(meta, open(old, "w"), indent=1)
    print(sid, meta["confirmed"][:3], meta["caught_by"][:100])
