#!/bin/bash
# usage: tools/audit.sh <patch> <Cxx> [more Cxx ...]   -- apply patch to /repo, run quick checks, revert.
# expects exit 1 (violation) for a property-breaking patch.
set -u
patch=$(realpath "$1"); shift
cd /repo || exit 9
if ! git diff --quiet; then echo "repo dirty, refusing"; exit 9; fi
git apply "$patch" || { echo "patch does not apply"; exit 9; }
trap 'git -C /repo checkout -- . ; git -C /repo clean -fdq -- OpenPinch' EXIT
cd /verif
for pid in "$@"; do
  out=$(OPV_OUT=/tmp/opv_audit_out PYTHONHASHSEED=0 /venv/bin/python -m opv.check "$pid" --tier "${TIER:-quick}" 2>&1); rc=$?
  echo "== $pid rc=$rc $(echo "$out" | grep -c '^VIOLATION') violation line(s)"
  echo "$out" | grep -E "^(bucket|  FAIL|VIOLATION|HARNESS)" | head -${LINES_MAX:-8}
done
