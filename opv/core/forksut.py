"""Fork-based pristine-process executor (C11).

The calling process has imported OpenPinch but never called into it.  ``run_in_child(fn)``
forks, runs ``fn()`` in the child and ships its JSON-serialisable return value back through a
pipe; the parent's module state is untouched.  A child that dies without an answer is a harness
error, not a property failure.
"""
from __future__ import annotations

import json
import os
import sys
import traceback


class ChildError(RuntimeError):
    pass


def run_in_child(fn, timeout: float = 120.0):
    r, w = os.pipe()
    sys.stdout.flush()
    sys.stderr.flush()
    pid = os.fork()
    if pid == 0:  # child
        code = 0
        try:
            os.close(r)
            try:
                payload = {"ok": True, "value": fn()}
            except BaseException as e:  # noqa: BLE001 - shipped to the parent
                payload = {"ok": False, "error": "".join(traceback.format_exception(e))[-4000:]}
            data = json.dumps(payload, default=_default).encode()
            with os.fdopen(w, "wb") as fh:
                fh.write(data)
        except BaseException:  # noqa: BLE001
            code = 3
        finally:
            os._exit(code)
    os.close(w)
    chunks = []
    with os.fdopen(r, "rb") as fh:
        while True:
            b = fh.read(1 << 16)
            if not b:
                break
            chunks.append(b)
    _, status = os.waitpid(pid, 0)
    raw = b"".join(chunks)
    if not raw:
        raise ChildError(f"child exited with status {status} without an answer")
    payload = json.loads(raw.decode())
    if not payload["ok"]:
        raise ChildError(payload["error"])
    return payload["value"]


def _default(o):
    try:
        import numpy as np

        if isinstance(o, np.generic):
            return o.item()
        if isinstance(o, np.ndarray):
            return o.tolist()
    except Exception:  # pragma: no cover
        pass
    if isinstance(o, (set, frozenset)):
        return sorted(map(repr, o))
    return repr(o)
