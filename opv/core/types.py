"""Shared data types for property modules.

A property module (opv/props/cXX.py) exposes

    PID          "C01"
    PARTS        list[Part]     one or more generated campaigns deciding the property
    RULE         str            how cases are generated and what counts as non-trivial
    ASSUMPTIONS  list[str]
    MIN_SHARE    dict[label -> minimum fraction of evaluated cases]   (optional)

A Part is either a plain ``@given`` campaign (``strategy`` + ``evaluate``) or a
stateful campaign (``machine`` builds a RuleBasedStateMachine class that logs its
operations; ``evaluate`` replays such a log through the same interpreter).
"""
from __future__ import annotations

from dataclasses import dataclass, field
from typing import Any, Callable, Dict, List, Optional


@dataclass
class Fail:
    aid: str  # stable sub-assertion id, e.g. "C03.cu_sum"
    msg: str  # observed vs expected, human readable

    def to_json(self):
        return {"assert": self.aid, "detail": self.msg}


@dataclass
class Outcome:
    fails: List[Fail] = field(default_factory=list)
    labels: set = field(default_factory=set)  # classifier output (distribution)
    rc: set = field(default_factory=set)  # root-cause predicates that hold for this case
    nontrivial: bool = False
    skip: Optional[str] = None  # reason when the case can neither pass nor fail

    def fail(self, aid: str, msg: str):
        self.fails.append(Fail(aid, msg))


@dataclass
class Part:
    name: str
    evaluate: Callable[[Any], Outcome]  # runs SUT + oracle on a concrete case
    budget: Dict[str, int]  # tier -> number of generated cases (all shards)
    strategy: Optional[Callable[[str], Any]] = None  # tier -> SearchStrategy[case]
    machine: Optional[Callable[[Any, str], Any]] = None  # (collector, tier) -> machine class
    steps: Dict[str, int] = field(default_factory=lambda: {"quick": 12, "thorough": 30})
    min_nontrivial: Dict[str, int] = field(default_factory=lambda: {"quick": 20, "thorough": 200})
    weight: float = 1.0  # relative cost; used only for ordering
