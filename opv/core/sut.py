"""Calling the system under test: exceptions become data, never passes."""
from __future__ import annotations

import os
import traceback


def exc_signature(e: BaseException) -> str:
    """<Type>@<innermost OpenPinch frame: file:function> — stable across line shifts."""
    frames = traceback.extract_tb(e.__traceback__)
    where = "?"
    for fr in frames:
        fn = fr.filename.replace("\\", "/")
        if "/OpenPinch/" in fn:
            where = f"{os.path.basename(fn)}:{fr.name}"
    return f"{type(e).__name__}@{where}"


def call_sut(fn, *args, **kwargs):
    """Return (True, value) or (False, signature). Only Exception is caught."""
    try:
        return True, fn(*args, **kwargs)
    except Exception as e:  # noqa: BLE001 - reported as a failure by the caller, never swallowed
        sig = exc_signature(e)
        call_sut.last_message = f"{type(e).__name__}: {e}"
        return False, sig


call_sut.last_message = ""


def hyp_target(value: float, label: str = ""):
    """hypothesis.target(), usable from replay / corpus evaluation as well (no-op there)."""
    from hypothesis import target
    from hypothesis.control import currently_in_test_context

    if currently_in_test_context():
        try:
            target(float(value), label=label)
        except Exception:  # noqa: BLE001 - targeting is an optimisation hint only (e.g. called twice per case)
            pass
