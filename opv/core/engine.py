"""One shard of one campaign, executed in its own interpreter.

Modes
-----
collect : run the whole case budget, never raise for a property failure; failures are
          bucketed by sub-assertion id (SUT exceptions by type + innermost OpenPinch frame),
          failures attributed to a listed known finding are only counted.
shrink  : same strategy, same seed; raise only for one target bucket so that Hypothesis
          shrinks it; the last failing case Hypothesis executes (its minimal example) is kept.
"""
from __future__ import annotations

import hashlib
import importlib
import json
import os
import sys
import time
import traceback
from typing import Any, Dict, List, Optional

from .types import Outcome, Part
from . import findings as fnd


def canon(case: Any) -> str:
    return json.dumps(case, sort_keys=True, separators=(",", ":"), default=_default)


def _default(o):
    try:
        import numpy as np

        if isinstance(o, np.generic):
            return o.item()
        if isinstance(o, np.ndarray):
            return o.tolist()
    except Exception:  # pragma: no cover
        pass
    if isinstance(o, (set, frozenset)):
        return sorted(o)
    if isinstance(o, tuple):
        return list(o)
    return repr(o)


def case_hash(case: Any) -> str:
    return hashlib.sha1(canon(case).encode()).hexdigest()[:16]


def load_module(pid: str):
    return importlib.import_module(f"opv.props.{pid.lower()}")


def get_part(mod, name: Optional[str]) -> Part:
    for p in mod.PARTS:
        if name is None or p.name == name:
            return p
    raise KeyError(name)


def buckets_of(out: Outcome, known) -> (List[str], Dict[str, int]):
    """Split the failures of one case into unattributed buckets and finding hits."""
    open_b, hits = [], {}
    for f in out.fails:
        fid = fnd.attribute(f.aid, out.rc, known)
        if fid is None:
            if f.aid not in open_b:
                open_b.append(f.aid)
        else:
            hits[fid] = 1
    return open_b, hits


class StopCampaign(BaseException):
    """Raised by the wall-clock guard: truncates a campaign, never a violation."""


class Collector:
    """Receives (case, outcome) pairs from @given bodies and state machines."""

    def __init__(self, pid: str, part: Part, mode: str, target: Optional[str] = None, deadline: Optional[float] = None):
        self.pid = pid
        self.part = part
        self.mode = mode
        self.target = target
        self.deadline = deadline
        self.known = fnd.load(pid)
        self.n = 0
        self.skips: Dict[str, int] = {}
        self.labels: Dict[str, int] = {}
        self.nt_hashes: set = set()
        self.nt_total = 0
        self.all_hashes: set = set()
        self.first_samples: List[Any] = []
        self.best_samples: List[tuple] = []  # (hash, case): lowest hashes = deterministic spread
        self.buckets: Dict[str, Dict[str, Any]] = {}
        self.excluded: Dict[str, int] = {}
        self.last_failing = None  # shrink mode
        self.n_failing = 0
        self.stop_at = None  # collect mode wall-clock guard

    def evaluate(self, case) -> Outcome:
        out = self.part.evaluate(case)
        self.report(case, out)
        return out

    def report(self, case, out: Outcome):
        if self.stop_at is not None and time.time() > self.stop_at:
            raise StopCampaign()
        self.n += 1
        h = case_hash(case)
        self.all_hashes.add(h)
        for lab in out.labels:
            self.labels[lab] = self.labels.get(lab, 0) + 1
        if out.skip:
            self.skips[out.skip] = self.skips.get(out.skip, 0) + 1
        elif out.nontrivial:
            self.nt_total += 1
            self.nt_hashes.add(h)
        if len(self.first_samples) < 2:
            self.first_samples.append(case)
        else:
            self.best_samples.append((h, case))
            self.best_samples.sort(key=lambda t: t[0])
            del self.best_samples[3:]
        open_b, hits = buckets_of(out, self.known)
        for fid in hits:
            self.excluded[fid] = self.excluded.get(fid, 0) + 1
        if self.mode == "collect":
            size = len(canon(case))
            for b in open_b:
                slot = self.buckets.setdefault(b, {"count": 0, "example": None, "size": 1 << 60, "detail": None})
                slot["count"] += 1
                if size < slot["size"]:
                    slot["size"] = size
                    slot["example"] = case
                    slot["detail"] = [f.to_json() for f in out.fails if f.aid == b][:3]
        else:
            if self.target in open_b:
                if self.deadline is not None and time.time() > self.deadline and self.last_failing is not None:
                    return  # shrink budget used up: stop the shrinker by passing from here on
                self.last_failing = {
                    "case": case,
                    "failed": open_b,
                    "detail": [f.to_json() for f in out.fails][:10],
                }
                self.n_failing += 1
                raise AssertionError(self.target)

    def result(self) -> dict:
        return {
            "n": self.n,
            "skips": self.skips,
            "labels": self.labels,
            "nt_hashes": sorted(self.nt_hashes),
            "nt_total": self.nt_total,
            "distinct_all": len(self.all_hashes),
            "first_samples": self.first_samples,
            "best_samples": [c for _, c in self.best_samples],
            "buckets": self.buckets,
            "excluded": self.excluded,
            "last_failing": self.last_failing,
        }


def hyp_settings(n: int, mode: str, steps: Optional[int] = None):
    from hypothesis import HealthCheck, Phase, settings

    phases = [Phase.generate, Phase.target] if mode == "collect" else [Phase.generate, Phase.target, Phase.shrink]
    kw = dict(
        max_examples=max(1, n),
        database=None,
        deadline=None,
        derandomize=False,
        report_multiple_bugs=False,
        phases=phases,
        suppress_health_check=[HealthCheck.too_slow, HealthCheck.data_too_large, HealthCheck.large_base_example],
        print_blob=False,
    )
    if steps is not None:
        kw["stateful_step_count"] = steps
    return settings(**kw)


def run_shard(pid: str, part_name: str, tier: str, seed: int, shard: int, nshards: int, mode: str, target: Optional[str] = None, shrink_seconds: Optional[float] = None) -> dict:
    import hypothesis
    from hypothesis import given
    from hypothesis.stateful import run_state_machine_as_test

    mod = load_module(pid)
    part = get_part(mod, part_name)
    total = max(1, int(part.budget[tier] * float(os.environ.get("OPV_SCALE", "1"))))
    n = total // nshards + (1 if shard < total % nshards else 0)
    deadline = time.time() + shrink_seconds if (mode == "shrink" and shrink_seconds) else None
    col = Collector(pid, part, mode, target, deadline)
    if mode == "collect":
        col.stop_at = time.time() + float(os.environ.get("OPV_SOFT_SECONDS", "900" if tier == "quick" else "21600"))
    truncated = False
    hseed = seed * 1009 + shard * 7919 + (sum(map(ord, part.name)) % 997)
    t0 = time.time()
    err = None
    if n > 0:
        try:
            if part.machine is not None:
                machine_cls = part.machine(col, tier)
                run_state_machine_as_test(
                    hypothesis.seed(hseed)(machine_cls),
                    settings=hyp_settings(n, mode, part.steps.get(tier, 12)),
                )
            else:
                strat = part.strategy(tier)

                @hypothesis.seed(hseed)
                @hypothesis.settings(hyp_settings(n, mode))
                @given(strat)
                def body(case):
                    col.evaluate(case)

                body()
        except StopCampaign:
            truncated = True
        except AssertionError as e:
            if mode != "shrink":
                err = "".join(traceback.format_exception(e))
        except BaseException as e:  # noqa: BLE001
            # In shrink mode Hypothesis may wrap/flag flakiness once the budget guard trips.
            if mode == "shrink" and col.last_failing is not None:
                pass
            else:
                err = "".join(traceback.format_exception(e))
    res = col.result()
    res.update({"pid": pid, "part": part.name, "tier": tier, "seed": seed, "hseed": hseed, "shard": shard, "budget": n, "wall_s": time.time() - t0, "error": err, "mode": mode, "target": target, "truncated": truncated})
    return res


def main(argv=None):
    import argparse

    ap = argparse.ArgumentParser()
    ap.add_argument("pid")
    ap.add_argument("--part", required=True)
    ap.add_argument("--tier", default="quick")
    ap.add_argument("--seed", type=int, default=1)
    ap.add_argument("--shard", type=int, default=0)
    ap.add_argument("--nshards", type=int, default=1)
    ap.add_argument("--mode", default="collect")
    ap.add_argument("--target")
    ap.add_argument("--shrink-seconds", type=float)
    ap.add_argument("--out", required=True)
    a = ap.parse_args(argv)
    try:
        res = run_shard(a.pid, a.part, a.tier, a.seed, a.shard, a.nshards, a.mode, a.target, a.shrink_seconds)
    except BaseException as e:  # noqa: BLE001
        res = {"error": "".join(traceback.format_exception(e)), "pid": a.pid, "part": a.part, "shard": a.shard}
    with open(a.out, "w") as fh:
        fh.write(canon(res))
    return 0


if __name__ == "__main__":
    sys.exit(main())
