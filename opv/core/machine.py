"""Base class for logged rule-based state machines.

Rules turn their drawn arguments into a concrete, JSON-serialisable operation, apply it to an
interpreter (real object + model) and log it.  The logged history is the *case*: it is what
gets hashed, sampled, written to the replay file and re-run (without Hypothesis) by
``Part.evaluate``.
"""
from __future__ import annotations

from hypothesis.stateful import RuleBasedStateMachine

from .types import Outcome


class LoggedMachine(RuleBasedStateMachine):
    col = None  # Collector, injected by the factory (subclass attribute)

    def __init__(self):
        super().__init__()
        self.ops = []
        self.init = None
        self.out = Outcome()
        self.dead = False
        self._reported = False

    # -- to be provided by subclasses
    def finalize(self, out: Outcome):
        """Set labels / nontrivial from the logged history."""

    def case(self):
        return {"init": self.init, "ops": self.ops}

    def record(self, op, fails):
        self.ops.append(op)
        if fails:
            self.out.fails.extend(fails)
            self.dead = True
            if self.col.mode == "shrink":
                self._report()

    def _report(self):
        if self._reported or self.init is None:
            return
        self._reported = True
        self.finalize(self.out)
        self.col.report(self.case(), self.out)

    def teardown(self):
        self._report()
