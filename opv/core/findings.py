"""Known-findings file (committed, never written at run time).

/verif/known_findings.json is a list of entries

  {"kind": "finding", "property": "C07", "id": "C07-F1", "what": "...",
   "signature": {"assert": ["C07.np_curve", ...], "class": "insertions_above_pinch>=2"},
   "witness": "corpus/C07/xyz.json"}
  {"kind": "fixed", "property": "C05", "commit": "<sha>", "what": "...", "witness": "corpus/C05/abc.json"}

A failure is attributed to a finding only when its sub-assertion id is listed in the
signature AND the named root-cause predicate (computed by the property module from the
input and the reference model, never from the implementation's output) holds for the case.
``fixed`` entries suppress nothing.
"""
from __future__ import annotations

import json
import os
from typing import Dict, List, Optional

ROOT = os.path.dirname(os.path.dirname(os.path.dirname(os.path.abspath(__file__))))
PATH = os.path.join(ROOT, "known_findings.json")

_cache: Dict[str, List[dict]] = {}


def load_all() -> List[dict]:
    if not os.path.exists(PATH):
        return []
    with open(PATH) as fh:
        return json.load(fh)


def load(pid: str) -> List[dict]:
    if pid not in _cache:
        _cache[pid] = [e for e in load_all() if e.get("property") == pid and e.get("kind") == "finding"]
    return _cache[pid]


def attribute(aid: str, rc: set, known: List[dict]) -> Optional[str]:
    for e in known:
        sig = e.get("signature", {})
        if aid in sig.get("assert", []) and sig.get("class") in rc:
            return e["id"]
    return None
