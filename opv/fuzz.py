"""Coverage-guided supplement (Atheris / libFuzzer) for the index-bookkeeping targets.

    python -m opv.fuzz <Cxx> <part> --runs N [--seed S] --stats <file>

The property's Hypothesis strategy is driven through ``fuzz_one_input`` so that libFuzzer's
coverage feedback over the instrumented OpenPinch modules chooses the bytes; the oracle is the
part's own ``evaluate`` (same sub-assertions, same known-finding matching).  A failing case is
written to replays/<Cxx>/fuzz_<hash>.json (the replay format of opv.check) before the target
raises.  Statistics are flushed to ``--stats`` every 200 cases because libFuzzer leaves through
os._exit.  This is a supplement used by the thorough tier only; the deciding step of every
property remains the sharded Hypothesis campaign.
"""
from __future__ import annotations

import argparse
import json
import os
import sys
import tempfile
import time

ROOT = os.path.dirname(os.path.dirname(os.path.abspath(__file__)))
DEPS = os.path.join(ROOT, ".deps")


def main(argv=None):
    ap = argparse.ArgumentParser()
    ap.add_argument("pid")
    ap.add_argument("part")
    ap.add_argument("--runs", type=int, default=20000)
    ap.add_argument("--seed", type=int, default=1)
    ap.add_argument("--stats", required=True)
    ap.add_argument("--max-seconds", type=int, default=600)
    a = ap.parse_args(argv)
    sys.path.insert(0, ROOT)
    if os.path.isdir(DEPS):
        sys.path.insert(0, DEPS)
    import atheris

    with atheris.instrument_imports(include=["OpenPinch.classes.problem_table", "OpenPinch.analysis.gcc_manipulation", "OpenPinch.utils.miscellaneous", "OpenPinch.utils.export", "OpenPinch.utils.heat_exchanger"]):
        import OpenPinch  # noqa: F401
        import OpenPinch.analysis.gcc_manipulation  # noqa: F401
        import OpenPinch.classes.problem_table  # noqa: F401
        import OpenPinch.utils.export  # noqa: F401
        import OpenPinch.utils.heat_exchanger  # noqa: F401
        import OpenPinch.utils.miscellaneous  # noqa: F401

    from hypothesis import HealthCheck, given, settings

    from opv.core import engine, findings

    mod = engine.load_module(a.pid)
    part = engine.get_part(mod, a.part)
    known = findings.load(a.pid.upper())
    st = {"pid": a.pid.upper(), "part": a.part, "cases": 0, "nontrivial": set(), "excluded": 0, "violations": [], "t0": time.time(), "seed": a.seed}

    def flush():
        d = dict(st)
        d["distinct_nontrivial"] = len(st["nontrivial"])
        d.pop("nontrivial")
        d["wall_s"] = time.time() - st["t0"]
        with open(a.stats, "w") as fh:
            json.dump(d, fh)

    strat = (getattr(mod, "FUZZ", {}).get(a.part) or part.strategy)("quick")

    @settings(database=None, deadline=None, suppress_health_check=list(HealthCheck))
    @given(strat)
    def body(case):
        out = part.evaluate(case)
        st["cases"] += 1
        if out.nontrivial and not out.skip:
            st["nontrivial"].add(engine.case_hash(case))
        open_b, hits = engine.buckets_of(out, known)
        if hits:
            st["excluded"] += 1
        if st["cases"] % 200 == 0:
            flush()
        if open_b:
            d = os.path.join(ROOT, "replays", a.pid.upper())
            os.makedirs(d, exist_ok=True)
            p = os.path.join(d, f"fuzz_{a.part}_{engine.case_hash(case)}.json")
            with open(p, "w") as fh:
                json.dump({"property": a.pid.upper(), "part": a.part, "case": json.loads(engine.canon(case)), "failed": open_b, "detail": [f.to_json() for f in out.fails][:10], "seed": a.seed, "origin": "atheris"}, fh, indent=1, sort_keys=True)
            st["violations"].append(os.path.relpath(p, ROOT))
            flush()
            raise AssertionError(open_b)

    corpus = tempfile.mkdtemp(prefix="opv_fuzz_")
    flush()
    atheris.Setup([sys.argv[0], f"-runs={a.runs}", f"-seed={a.seed}", "-max_len=8192", "-len_control=0", f"-max_total_time={a.max_seconds}", corpus], body.hypothesis.fuzz_one_input)
    try:
        atheris.Fuzz()
    finally:
        flush()


if __name__ == "__main__":
    main()
