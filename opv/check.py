"""CLI:  python -m opv.check <Cxx> [--tier quick|thorough] [--replay file]

Exit 0  property held on everything explored (KNOWN-FINDING lines possible)
Exit 1  + "VIOLATION property=<id> replay=<path>" per unattributed failure bucket
Exit 2  harness error (never printed as a violation)
"""
from __future__ import annotations

import argparse
import json
import os
import shutil
import subprocess
import sys
import tempfile
import time
import traceback

ROOT = os.path.dirname(os.path.dirname(os.path.abspath(__file__)))
PY = sys.executable

SHARDS = {"quick": 8, "thorough": 16}
SOFT_SECONDS = {"quick": 900, "thorough": 6 * 3600}
SHRINK_SECONDS = {"quick": 60, "thorough": 240}
MAX_SHRUNK_BUCKETS = 6
FUZZ_RUNS = 20000


def child_env():
    env = dict(os.environ)
    env["PYTHONHASHSEED"] = "0"
    for k in ("OMP_NUM_THREADS", "OPENBLAS_NUM_THREADS", "MKL_NUM_THREADS", "NUMEXPR_NUM_THREADS"):
        env[k] = "1"
    env["PYTHONPATH"] = ROOT + (os.pathsep + env["PYTHONPATH"] if env.get("PYTHONPATH") else "")
    env["MPLBACKEND"] = "Agg"
    return env


def launch(pid, part, tier, seed, shard, nshards, mode, out, target=None, shrink_seconds=None):
    cmd = [PY, "-m", "opv.core.engine", pid, "--part", part, "--tier", tier, "--seed", str(seed), "--shard", str(shard), "--nshards", str(nshards), "--mode", mode, "--out", out]
    if target:
        cmd += ["--target", target]
    if shrink_seconds:
        cmd += ["--shrink-seconds", str(shrink_seconds)]
    log = open(out + ".log", "w")
    return subprocess.Popen(cmd, cwd=ROOT, env=child_env(), stdout=log, stderr=subprocess.STDOUT)


# development overrides (tools/mutation.py runs many checks side by side against scratch copies of the repository):
#   OPV_OUT     directory that receives evidence/ and replays/ instead of /verif
#   OPV_SHARDS  number of shard processes (the case budget is unchanged)
#   OPV_NO_SHRINK=1  skip the shrink pass (the collected example becomes the replay)
OUT_ROOT = os.environ.get("OPV_OUT") or ROOT


def rel(path):
    return os.path.relpath(path, ROOT)


def write_replay(pid, part, case, failed, detail, seed, origin):
    from opv.core.engine import canon, case_hash

    d = os.path.join(OUT_ROOT, "replays", pid)
    os.makedirs(d, exist_ok=True)
    p = os.path.join(d, f"{part}_{case_hash(case)}.json")
    with open(p, "w") as fh:
        json.dump({"property": pid, "part": part, "case": json.loads(canon(case)), "failed": failed, "detail": detail, "seed": seed, "origin": origin}, fh, indent=1, sort_keys=True)
    return rel(p)


def replay_file(pid, path, quiet=False):
    """Evaluate one saved case; return (open_buckets, finding_hits, outcome)."""
    from opv.core import engine, findings

    mod = engine.load_module(pid)
    with open(path) as fh:
        doc = json.load(fh)
    part = engine.get_part(mod, doc.get("part"))
    out = part.evaluate(doc["case"])
    open_b, hits = engine.buckets_of(out, findings.load(pid))
    if not quiet:
        for f in out.fails:
            print(f"  FAIL {f.aid}: {f.msg}")
        if out.skip:
            print(f"  SKIPPED: {out.skip}")
    return open_b, hits, out


def main(argv=None):
    ap = argparse.ArgumentParser()
    ap.add_argument("pid")
    ap.add_argument("--tier", default=os.environ.get("VERIF_TIER", "quick"))
    ap.add_argument("--replay")
    ap.add_argument("--parts", help="comma separated subset of parts (development)")
    ap.add_argument("--scale", type=float, default=1.0, help="scale budgets (development)")
    a = ap.parse_args(argv)
    pid = a.pid.upper()
    tier = a.tier if a.tier in ("quick", "thorough") else "quick"
    try:
        seed = int(os.environ.get("VERIF_SEED", "1"))
    except ValueError:
        seed = 1
    os.environ.setdefault("PYTHONHASHSEED", "0")
    sys.path.insert(0, ROOT)
    try:
        if a.replay:
            path = a.replay if os.path.isabs(a.replay) else os.path.join(ROOT, a.replay)
            open_b, hits, out = replay_file(pid, path)
            if open_b:
                print(f"VIOLATION property={pid} replay={rel(path)}")
                return 1
            for fid in hits:
                print(f"KNOWN-FINDING: property={pid} {fid} reproduced by {rel(path)}")
            print(f"replay {rel(path)}: property held" if not hits else f"replay {rel(path)}: only known findings")
            return 0
        return run(pid, tier, seed, a)
    except SystemExit:
        raise
    except BaseException:  # noqa: BLE001
        traceback.print_exc()
        print(f"HARNESS-ERROR property={pid}")
        return 2


def run(pid, tier, seed, a):
    from opv.core import engine, findings

    t0 = time.time()
    mod = engine.load_module(pid)
    parts = [p for p in mod.PARTS if not a.parts or p.name in a.parts.split(",")]
    nshards = int(os.environ.get("OPV_SHARDS") or SHARDS[tier])
    work = tempfile.mkdtemp(prefix=f"opv_{pid}_")
    procs = []
    try:
        if a.scale != 1.0:
            os.environ["OPV_SCALE"] = str(a.scale)
        for part in parts:
            for k in range(nshards):
                out = os.path.join(work, f"{part.name}_{k}.json")
                procs.append((part, k, out, launch(pid, part.name, tier, seed, k, nshards, "collect", out)))

        # --- coverage-guided supplement (thorough tier only; needs atheris under .deps, installed by setup_cmd)
        fuzz_jobs = []
        if tier == "thorough" and os.path.isdir(os.path.join(ROOT, ".deps", "atheris")) and not a.parts:
            for pname in getattr(mod, "FUZZ", {}):
                for k in range(4):
                    st_file = os.path.join(work, f"fuzz_{pname}_{k}.json")
                    cmd = [PY, "-m", "opv.fuzz", pid, pname, "--runs", str(FUZZ_RUNS), "--seed", str(seed * 10 + k + 1), "--stats", st_file, "--max-seconds", "900"]
                    fuzz_jobs.append((pname, st_file, subprocess.Popen(cmd, cwd=ROOT, env=child_env(), stdout=subprocess.DEVNULL, stderr=subprocess.DEVNULL)))

        violations = []  # (replay path)
        known_lines = []
        harness_errors = []

        # --- replay tier: committed corpus and finding witnesses (runs while shards work)
        corpus_dir = os.path.join(ROOT, "corpus", pid)
        corpus_n = 0
        if os.path.isdir(corpus_dir):
            for fn in sorted(os.listdir(corpus_dir)):
                if not fn.endswith(".json"):
                    continue
                path = os.path.join(corpus_dir, fn)
                open_b, hits, out = replay_file(pid, path, quiet=True)
                corpus_n += 1
                if open_b:
                    print(f"corpus case {rel(path)} fails: {open_b}")
                    for f in out.fails:
                        print(f"  FAIL {f.aid}: {f.msg}")
                    violations.append(rel(path))
        for e in findings.load(pid):
            w = e.get("witness")
            if not w:
                continue
            open_b, hits, out = replay_file(pid, os.path.join(ROOT, w), quiet=True)
            if e["id"] in hits:
                known_lines.append(f"KNOWN-FINDING: property={pid} {e['id']} {e['what']} (witness {w})")

        # --- gather shards
        agg = {}
        for part, k, out, proc in procs:
            try:
                proc.wait(timeout=SOFT_SECONDS[tier] + 600)
            except subprocess.TimeoutExpired:
                proc.kill()
                harness_errors.append(f"{part.name} shard {k}: killed after hard timeout")
                continue
            if not os.path.exists(out):
                log = open(out + ".log").read()[-3000:] if os.path.exists(out + ".log") else ""
                harness_errors.append(f"{part.name} shard {k}: no result file\n{log}")
                continue
            res = json.load(open(out))
            if res.get("error"):
                harness_errors.append(f"{part.name} shard {k}: {res['error']}")
            if "n" not in res:
                continue
            g = agg.setdefault(part.name, {"n": 0, "skips": {}, "labels": {}, "nt": set(), "nt_total": 0, "samples": [], "buckets": {}, "excluded": {}, "wall": 0.0, "truncated": False})
            g["n"] += res["n"]
            g["nt_total"] += res["nt_total"]
            g["nt"].update(res["nt_hashes"])
            g["wall"] = max(g["wall"], res["wall_s"])
            g["truncated"] = g["truncated"] or bool(res.get("truncated"))
            for key in ("skips", "labels", "excluded"):
                for lab, c in res[key].items():
                    g[key][lab] = g[key].get(lab, 0) + c
            if k == 0:
                g["samples"] = res["first_samples"] + res["best_samples"]
            elif len(g["samples"]) < 6 and res["best_samples"]:
                g["samples"].append(res["best_samples"][0])
            for b, slot in res["buckets"].items():
                cur = g["buckets"].setdefault(b, {"count": 0, "example": None, "size": 1 << 60, "shard": k, "detail": None})
                cur["count"] += slot["count"]
                if slot["size"] < cur["size"]:
                    cur.update(size=slot["size"], example=slot["example"], detail=slot["detail"])

        # --- shrink pass, once per open bucket
        shrink_jobs = []
        for part in parts:
            g = agg.get(part.name)
            if not g:
                continue
            for i, (b, slot) in enumerate(sorted(g["buckets"].items(), key=lambda kv: -kv[1]["count"])):
                if i < MAX_SHRUNK_BUCKETS and not os.environ.get("OPV_NO_SHRINK"):
                    out = os.path.join(work, f"shrink_{part.name}_{i}.json")
                    shrink_jobs.append((part, b, slot, out, launch(pid, part.name, tier, seed, slot["shard"], nshards, "shrink", out, target=b, shrink_seconds=SHRINK_SECONDS[tier])))
                else:
                    shrink_jobs.append((part, b, slot, None, None))
        for part, b, slot, out, proc in shrink_jobs:
            case, failed, detail, origin = slot["example"], [b], slot["detail"], "collect"
            if proc is not None:
                try:
                    proc.wait(timeout=SHRINK_SECONDS[tier] * 4 + 400)
                except subprocess.TimeoutExpired:
                    proc.kill()
                if os.path.exists(out):
                    res = json.load(open(out))
                    lf = res.get("last_failing")
                    if lf:
                        case, failed, detail, origin = lf["case"], lf["failed"], lf["detail"], "shrunk"
            rp = write_replay(pid, part.name, case, failed, detail, seed, origin)
            print(f"bucket {b} ({slot['count']} cases, part {part.name}):")
            for d in detail or []:
                print(f"  FAIL {d['assert']}: {d['detail']}")
            violations.append(rp)

        # --- gather the coverage-guided supplement
        fuzz_ev = []
        for pname, st_file, proc in fuzz_jobs:
            try:
                proc.wait(timeout=1500)
            except subprocess.TimeoutExpired:
                proc.kill()
            if os.path.exists(st_file):
                fs = json.load(open(st_file))
                fuzz_ev.append({"part": pname, "seed": fs["seed"], "cases": fs["cases"], "distinct_nontrivial": fs["distinct_nontrivial"], "excluded_by_finding": fs["excluded"], "violations": len(fs["violations"]), "wall_s": round(fs["wall_s"], 1)})
                for rp in fs["violations"]:
                    print(f"coverage-guided supplement ({pname}, seed {fs['seed']}) found a failing case")
                    violations.append(rp)

        # --- generator health
        scale = a.scale
        for part in parts:
            g = agg.get(part.name)
            if not g:
                harness_errors.append(f"part {part.name}: no shard reported")
                continue
            need = int(part.min_nontrivial.get(tier, 0) * min(1.0, scale))
            if len(g["nt"]) < need and not g["truncated"]:
                harness_errors.append(f"part {part.name}: only {len(g['nt'])} distinct non-trivial cases (< {need}); fix the generator")
            for lab, share in getattr(mod, "MIN_SHARE", {}).get(part.name, {}).items():
                got = g["labels"].get(lab, 0) / max(1, g["n"])
                if got < share and g["n"] >= 200:
                    harness_errors.append(f"part {part.name}: class '{lab}' share {got:.3f} < {share}; fix the generator")

        # --- evidence
        evaluations = sum(g["n"] for g in agg.values())
        distinct_nt = sum(len(g["nt"]) for g in agg.values())
        samples = []
        for part in parts:
            g = agg.get(part.name)
            if g:
                samples += [{"part": part.name, "case": c} for c in g["samples"][:4]]
        ev = {
            "property_id": pid,
            "tier": tier,
            "seed": seed,
            "level": "exploration",
            "coverage": {
                "evaluations": evaluations,
                "distinct_nontrivial": distinct_nt,
                "rule": mod.RULE,
                "samples": samples,
                "parts": {
                    name: {
                        "evaluations": g["n"],
                        "distinct_nontrivial": len(g["nt"]),
                        "nontrivial_total": g["nt_total"],
                        "classes": dict(sorted(g["labels"].items())),
                        "skipped": g["skips"],
                        "excluded_by_finding": g["excluded"],
                        "failure_buckets": {b: s["count"] for b, s in g["buckets"].items()},
                        "truncated": g["truncated"],
                        "max_shard_wall_s": round(g["wall"], 1),
                    }
                    for name, g in agg.items()
                },
                "corpus_cases": corpus_n,
                "coverage_guided_supplement": fuzz_ev,
                "known_findings_reproduced": len(known_lines),
                "shards": nshards,
                "exhaustive": False,
            },
            "assumptions": list(getattr(mod, "ASSUMPTIONS", [])),
            "wall_s": round(time.time() - t0, 1),
            "violations": len(violations),
        }
        os.makedirs(os.path.join(OUT_ROOT, "evidence"), exist_ok=True)
        with open(os.path.join(OUT_ROOT, "evidence", f"{pid}.json"), "w") as fh:
            fh.write(engine.canon(ev) if False else json.dumps(json.loads(engine.canon(ev)), indent=1, sort_keys=True))

        for part in parts:
            g = agg.get(part.name)
            if g:
                excl = sum(g["excluded"].values())
                print(f"{pid}/{part.name}: {g['n']} cases, {len(g['nt'])} distinct non-trivial, {sum(g['skips'].values())} skipped, {excl} excluded by known findings, {len(g['buckets'])} open failure buckets")
        for line in known_lines:
            print(line)
        if harness_errors:
            for h in harness_errors:
                print("HARNESS-ERROR:", h)
        if violations:
            for rp in violations:
                print(f"VIOLATION property={pid} replay={rp}")
            return 1
        if harness_errors:
            return 2
        print(f"{pid}: property held on everything explored ({evaluations} cases, {time.time()-t0:.0f}s)")
        return 0
    finally:
        for _, _, _, proc in procs:
            if proc.poll() is None:
                proc.kill()
        shutil.rmtree(work, ignore_errors=True)


if __name__ == "__main__":
    sys.exit(main())
