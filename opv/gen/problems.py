"""Hypothesis strategies for pinch problems (sound first: only documented input shapes).

A generated *case* is a JSON-serialisable dict
    {"streams": [...], "utilities": [...], "options": {...} | None, "zone_tree": {...} | None}
that can be passed to ``pinch_analysis_service`` unchanged.

Temperature domain: every generated temperature, contribution and glide is a multiple of
1e-3 K, except a few 6-decimal "thirds" (x.333333 / x.666667) that are re-used across
streams.  Two distinct real or shifted breakpoints are therefore either identical or at
least 3.3e-4 K apart — far outside the implementation's 1e-6 / 1e-5 merging windows, so the
exact oracle and the tolerance-based code agree on what a distinct temperature is.
"""
from __future__ import annotations

from hypothesis import strategies as st

COARSE = [float(x) for x in range(-50, 451, 10)]
DT_CONT = [0.0, 0.5, 2.5, 5.0, 7.5, 10.0]
DUTY_ROUND = [1.0, 10.0, 50.0, 100.0, 250.0, 500.0, 1000.0, 2000.0, 5000.0, 12000.0, 1e5]


def temperature(thirds=True):
    alts = [
        st.sampled_from(COARSE),
        st.integers(-50, 450).map(float),
        st.integers(-100, 900).map(lambda k: k / 2),
        st.integers(-50000, 450000).map(lambda k: k / 1000),
    ]
    if thirds:
        alts.append(st.tuples(st.integers(-50, 449), st.sampled_from([0.333333, 0.666667])).map(lambda t: round(t[0] + t[1], 6)))
    return st.one_of(*alts)


def palette(min_size=2, max_size=8, thirds=True):
    """Per-problem pool of temperatures so that coincident and nested ranges are common."""
    return st.lists(temperature(thirds), min_size=min_size, max_size=max_size, unique=True)


def duty():
    return st.one_of(
        st.sampled_from(DUTY_ROUND),
        st.integers(1, 100000).map(lambda k: k / 10),
        st.integers(1, 100000).map(float),
    )


def dt_cont():
    return st.one_of(st.sampled_from(DT_CONT), st.integers(0, 200).map(lambda k: k / 10))


def htc():
    return st.one_of(st.just(1.0), st.integers(5, 500).map(lambda k: k / 100))


@st.composite
def stream(draw, pal, zones, names=None, iso_share=0.1, dts=None, kind=None, thirds=True):
    """One process stream. ``kind``: None (any), "H", "C"."""
    iso = draw(st.integers(0, 999)) < int(iso_share * 1000)
    a = draw(st.sampled_from(pal))
    if iso and (kind == "H" or (kind is None and draw(st.booleans()))):
        ts, tt = a, round(a - 0.01, 6)  # a latent HOT stream has no shorthand: written out as a 0.01 K span
    elif iso:
        ts = tt = a
    else:
        b = draw(st.one_of(st.sampled_from(pal), temperature(thirds)).filter(lambda x: x != a))
        hi, lo = max(a, b), min(a, b)
        k = kind or draw(st.sampled_from(["H", "C"]))
        ts, tt = (hi, lo) if k == "H" else (lo, hi)
    return {
        "zone": draw(st.sampled_from(zones)),
        "name": draw(names) if names is not None else draw(st.sampled_from(["S1", "S2", "S3", "S4", "S5", "S6", "H1", "C1", "feed", "prod"])),
        "t_supply": ts,
        "t_target": tt,
        "heat_flow": draw(duty()),
        "dt_cont": draw(dts if dts is not None else dt_cont()),
        "htc": draw(htc()),
    }


# ---- label-safe zone label sets (no label is a '/'-suffix or prefix of another, no O<n> component)
SAFE_LABEL_SETS = [
    ["P1"],
    ["P1", "P2"],
    ["P1", "P2", "P3"],
    ["P1", "P2", "P3", "P4"],
    ["A/X", "A/Y"],
    ["A/X", "A/Y", "B"],
    ["A/X", "B/X"],
    ["A/X/U", "A/X/V", "A/Y"],
    ["Plant A", "Plant B"],
]


def zone_labels(multi=None):
    """multi=None any; False single zone; True >= 2 zones."""
    sets = SAFE_LABEL_SETS
    if multi is False:
        sets = [s for s in sets if len(s) == 1]
    elif multi is True:
        sets = [s for s in sets if len(s) >= 2]
    return st.sampled_from(sets)


@st.composite
def streams(draw, min_streams=1, max_streams=8, multi_zone=None, shape=None, iso_share=0.1, dts=None, pal=None, thirds=True):
    """A stream set. ``shape`` in {None, "only-hot", "only-cold", "mixed"}."""
    labels = draw(zone_labels(multi_zone))
    pal = pal or draw(palette(thirds=thirds))
    n = draw(st.integers(max(min_streams, 1), max_streams))
    shape = shape or draw(st.sampled_from(["mixed"] * 8 + ["only-hot", "only-cold"]))
    out = []
    for i in range(n):
        kind = {"only-hot": "H", "only-cold": "C"}.get(shape)
        if shape == "mixed" and n >= 2 and i < 2:
            kind = "HC"[i]  # a mixed problem really has both kinds
        s = draw(stream(pal, labels, iso_share=iso_share, dts=dts, kind=kind, thirds=thirds))
        out.append(s)
    # every label of a multi-zone set is used at least once when there are enough streams
    if len(labels) > 1 and n >= len(labels):
        for i, lab in enumerate(labels):
            out[i]["zone"] = lab
    return out


UT_GLIDE = [0.1, 1.0, 10.0, 50.0]


@st.composite
def utility(draw, pal, side, idx, isothermal=None, dts=None, name=None, thirds=True):
    """side: "Hot" | "Cold" | "Both"."""
    t = draw(st.one_of(st.sampled_from(pal), temperature(thirds)))
    off = draw(st.sampled_from([0.0, 0.0, 5.0, 10.0, 20.0, 50.0, -5.0, -10.0, 100.0, 200.0]))
    t = round(t + (off if side != "Cold" else -off), 6)
    iso = draw(st.booleans()) if isothermal is None else isothermal
    if iso:
        ts = tt = t
    else:
        g = draw(st.sampled_from(UT_GLIDE))
        if side == "Cold":
            ts, tt = t, round(t + g, 6)
        else:
            ts, tt = t, round(t - g, 6)
    return {
        "name": name or f"{'HU' if side == 'Hot' else 'CU' if side == 'Cold' else 'BU'}{idx}",
        "type": side,
        "t_supply": ts,
        "t_target": tt,
        "heat_flow": draw(st.sampled_from([None, 0.0, 100.0])),
        "dt_cont": draw(dts if dts is not None else st.sampled_from([0.0, 2.5, 5.0])),
        "htc": draw(st.sampled_from([1.0, 0.5, 2.0])),
        "price": draw(st.sampled_from([0.0, 10.0, 40.0, 120.0])),
        "active": draw(st.sampled_from([True] * 9 + [False])) if side != "Both" else draw(st.sampled_from([True, True, True, False])),
    }


@st.composite
def utilities(draw, pal, max_hot=3, max_cold=3, max_both=1, isothermal=None, allow_none=True, dts=None, thirds=True):
    if allow_none and draw(st.integers(0, 9)) < 1:
        return []
    out = []
    for i in range(draw(st.sampled_from([0] + list(range(1, max_hot + 1)) * 2))):
        out.append(draw(utility(pal, "Hot", i + 1, isothermal, dts, thirds=thirds)))
    for i in range(draw(st.sampled_from([0] + list(range(1, max_cold + 1)) * 2))):
        out.append(draw(utility(pal, "Cold", i + 1, isothermal, dts, thirds=thirds)))
    for i in range(draw(st.integers(0, max_both))):
        out.append(draw(utility(pal, "Both", i + 1, isothermal, dts, thirds=thirds)))
    return draw(st.permutations(out)) if out else out


@st.composite
def problem(draw, min_streams=1, max_streams=8, multi_zone=None, with_utilities=True, shape=None, iso_share=0.1, isothermal_utils=None, options=None, max_hot=3, max_cold=3, max_both=1, thirds=True):
    pal = draw(palette(thirds=thirds))
    ss = draw(streams(min_streams, max_streams, multi_zone, shape, iso_share, pal=pal, thirds=thirds))
    us = draw(utilities(pal, max_hot, max_cold, max_both, isothermal_utils, thirds=thirds)) if with_utilities else []
    case = {"streams": ss, "utilities": us}
    opts = draw(options) if options is not None else None
    if opts:
        case["options"] = opts
    return case


@st.composite
def gcc_problem(draw, max_rows=10, with_utilities=True, max_hot=3, max_cold=3, max_both=1, isothermal_utils=None, zones=("P1",)):
    """A stream set built to realise a drawn grand-composite shape: per interval of a descending temperature list one
    cold (heat sink) or hot (heat source) stream carries the drawn step of the residual, so pockets - several per side,
    nested, and closing exactly on existing rows because steps repeat (+-4, +-8, +-20) - appear by construction rather
    than by luck.  A 'carrier' pair (one hot and one cold stream of equal CP over the whole range) is added in half of
    the cases so that intervals hold several streams.  Contributions are uniform (0 or 5 K) so the shifted grid is the
    drawn one."""
    n = draw(st.integers(4, max_rows))
    top = float(draw(st.integers(60, 380)))
    T = [top]
    for g in draw(st.lists(st.sampled_from([1.0, 2.0, 5.0, 10.0, 20.0, 50.0]), min_size=n - 1, max_size=n - 1)):
        T.append(T[-1] - g)
    steps = draw(st.lists(st.sampled_from([0, 4, -4, 8, -8, 20, -20, 12, -12, 40, -40, 1, -1]), min_size=n - 1, max_size=n - 1))
    dt = draw(st.sampled_from([0.0, 5.0, 5.0]))
    ss = []
    for i, d in enumerate(steps):  # d > 0: the residual falls by d across interval i (a sink), d < 0: a source
        if d == 0:
            continue
        hi, lo = T[i], T[i + 1]
        if d > 0:
            ss.append({"zone": draw(st.sampled_from(list(zones))), "name": f"C{i}", "t_supply": round(lo - dt, 6), "t_target": round(hi - dt, 6), "heat_flow": float(d) * 2.5, "dt_cont": dt, "htc": 1.0})
        else:
            ss.append({"zone": draw(st.sampled_from(list(zones))), "name": f"H{i}", "t_supply": round(hi + dt, 6), "t_target": round(lo + dt, 6), "heat_flow": float(-d) * 2.5, "dt_cont": dt, "htc": 1.0})
    if not ss or draw(st.booleans()):
        q = float(draw(st.sampled_from([100.0, 640.0])))
        ss.append({"zone": zones[0], "name": "Hc", "t_supply": round(T[0] + dt, 6), "t_target": round(T[-1] + dt, 6), "heat_flow": q, "dt_cont": dt, "htc": 1.0})
        ss.append({"zone": zones[0], "name": "Cc", "t_supply": round(T[-1] - dt, 6), "t_target": round(T[0] - dt, 6), "heat_flow": q, "dt_cont": dt, "htc": 1.0})
    case = {"streams": draw(st.permutations(ss))}
    case["utilities"] = draw(utilities(T, max_hot, max_cold, max_both, isothermal_utils, thirds=False)) if with_utilities else []
    return case


# analysis flags that add outputs (extra curves, unit-operation targets, exergy figures) but must leave every target,
# utility duty and table of the plain analysis untouched.  DO_INDIRECT_PROCESS_TARGETING and DO_AREA_TARGETING are not
# here: they raise on classes of valid inputs (known findings C14-F1, C14-F2) and would hide what lies behind them.
BENIGN_FLAGS = ["DO_DIRECT_OPERATION_TARGETING", "DO_VERTICAL_GCC", "DO_ASSITED_HT", "DO_EXERGY_TARGETING", "DO_BALANCED_CC"]


@st.composite
def with_options(draw, base, one_in=3):
    """``base`` with 1-3 of the benign analysis flags switched on in one case out of ``one_in`` (cases that already carry options are left alone)."""
    case = draw(base)
    if "options" not in case and draw(st.integers(0, one_in - 1)) == 0:
        flags = draw(st.lists(st.sampled_from(BENIGN_FLAGS), min_size=1, max_size=3, unique=True))
        case = dict(case)
        case["options"] = {f: (draw(st.booleans()) if f == "DO_BALANCED_CC" else True) for f in flags}
    return case


@st.composite
def community_problem(draw, max_per_zone=3, thirds=False):
    """An explicit zone tree whose root is a Community or a Region (both are documented zone types): the root itself is
    never targeted, the sites below it are.  Root(Community) -> 1-2 sites -> 1-2 process zones, or
    Root(Region) -> Community -> sites.  Stream labels are paths below the root."""
    pal = draw(palette(thirds=thirds))
    region = draw(st.booleans())
    sites = []
    ss = []
    prefix = "Town/" if region else ""
    for sname, plants in (("North", ["NA", "NB"]), ("South", ["SA", "SB"]))[: draw(st.integers(1, 2))]:
        kids = plants[: draw(st.integers(1, 2))]
        for k in kids:
            for _ in range(draw(st.integers(1, max_per_zone))):
                ss.append(draw(stream(pal, [f"{prefix}{sname}/{k}"], iso_share=0.05, thirds=thirds)))
        sites.append({"name": sname, "type": "Site", "children": [{"name": k, "type": "Process Zone", "children": None} for k in kids]})
    community = {"name": "Town" if region else "Site", "type": "Community", "children": sites}
    tree = {"name": "Site", "type": "Region", "children": [community]} if region else community
    return {"streams": ss, "utilities": draw(utilities(pal, 2, 2, 1, thirds=thirds)), "zone_tree": tree, "shape": "region-root" if region else "community-root"}
