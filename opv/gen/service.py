"""Running the real service on a generated case and walking the returned zone tree."""
from __future__ import annotations

import copy
from typing import Dict, Iterator, List, Tuple

from ..core.sut import call_sut

DI = "Direct Integration"
TZ = "Total Process Target"
TS = "Total Site Target"


def clear_graph_accumulator():
    """C11's shared-default-argument defect must not pollute the other properties."""
    from OpenPinch.analysis import graph_data

    d = graph_data.get_output_graph_data.__defaults__
    if d and isinstance(d[0], dict):
        d[0].clear()


SPELL_FIELDS = {
    "streams": (("t_supply", ("degC", "C", "\u00b0C")), ("t_target", ("degC", "\u00b0C", "C")), ("heat_flow", ("kW", "kJ/s")), ("dt_cont", ("degC", "K")), ("htc", ("kW/m2/K", "kW/m^2/degC"))),
    "utilities": (("t_supply", ("degC", "C", "\u00b0C")), ("t_target", ("\u00b0C", "degC", "C")), ("dt_cont", ("degC", "K")), ("htc", ("kW/m2/K", "kW/m^2/degC")), ("price", ("$/MWh", "EUR/MWh")), ("heat_flow", ("kW", "kJ/s"))),
}


def apply_spelling(payload: dict, pattern) -> dict:
    """The same problem with each number independently spelled as a bare float or as a value-with-unit object.

    ``pattern`` is a generated list of small integers consumed cyclically, field by field: 0 = bare number, k > 0 = wrapped
    with the k-th unit string of that field.  Missing (None) values stay missing.  The reference side always works
    on the bare numbers of the case; only the payload handed to the library is re-spelled."""
    if not pattern:
        return payload
    i = 0
    for key, fields in SPELL_FIELDS.items():
        for x in payload.get(key) or []:
            for f, units in fields:
                if x.get(f) is None or isinstance(x.get(f), dict):
                    continue
                k = pattern[i % len(pattern)]
                i += 1
                if k:
                    x[f] = {"value": x[f], "units": units[(k - 1) % len(units)]}
    return payload


def run_service(case: dict, project: str = "Site", full: bool = True, clear: bool = True):
    """(True, (TargetOutput, master Zone)) or (False, exception signature)."""
    from OpenPinch.main import pinch_analysis_service

    if clear:
        clear_graph_accumulator()
    payload = copy.deepcopy({k: v for k, v in case.items() if k in ("streams", "utilities", "options", "zone_tree") and v is not None})
    payload = apply_spelling(payload, case.get("spelling"))
    return call_sut(pinch_analysis_service, payload, project, full)


def label_path(label: str) -> Tuple[str, ...]:
    return tuple(p.strip() for p in label.split("/") if p.strip()) if "/" in label else (label,)


def walk(zone, path=()) -> Iterator[Tuple[Tuple[str, ...], object]]:
    """Yield (path below the root, zone) for every zone of the tree, root first (path ())."""
    yield path, zone
    for z in zone.subzones.values():
        yield from walk(z, path + (z.name,))


def members(case: dict, path: Tuple[str, ...]) -> List[dict]:
    """Input streams labelled into the zone at ``path`` (component-wise prefix rule)."""
    out = []
    for s in case["streams"]:
        lp = label_path(s["zone"])
        if lp[: len(path)] == path:
            out.append(s)
    return out


def record_map(out) -> Dict[str, list]:
    m: Dict[str, list] = {}
    for t in out.targets:
        m.setdefault(t.name, []).append(t)
    return m


def val(x):
    """Number from float / ValueWithUnit / None."""
    if x is None:
        return None
    return getattr(x, "value", x)


CONTAINER_TYPES = ("Community", "Region")


def container_paths(case: dict) -> set:
    """Paths (below the root, root = ()) of the nodes of an explicit zone tree that only group sites: communities and
    regions are never targeted themselves (main._get_community_targets / _get_regional_targets only descend), so no
    direct-integration record is expected for them."""
    out = set()

    def rec(node, path):
        if node.get("type") in CONTAINER_TYPES:
            out.add(path)
        for c in node.get("children") or []:
            rec(c, path + (c["name"],))

    if case.get("zone_tree"):
        rec(case["zone_tree"], ())
    return out
