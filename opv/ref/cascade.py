"""Exact (rational-arithmetic) heat cascade — independent of OpenPinch code.

Every number is a ``fractions.Fraction`` built from the shortest decimal string of the
input float, so the reference has no rounding of its own.
"""
from __future__ import annotations

from dataclasses import dataclass
from fractions import Fraction as Fr
from typing import Iterable, List, Optional, Sequence, Tuple

ISO_DT = Fr(1, 100)  # documented: t_supply == t_target means a 0.01 K latent stream


def num(x):
    """Plain number from a float or a {"value","units"} wrapper."""
    if isinstance(x, dict):
        return x["value"]
    return x


def fr(x) -> Fr:
    if isinstance(x, Fr):
        return x
    x = num(x)
    if isinstance(x, int):
        return Fr(x)
    return Fr(repr(float(x)))


@dataclass(frozen=True)
class RS:
    """Reference stream."""

    kind: str  # "H" or "C"
    tmin: Fr
    tmax: Fr
    dt: Fr
    q: Fr
    htc: Fr = Fr(1)
    name: str = ""

    @property
    def cp(self) -> Fr:
        return self.q / (self.tmax - self.tmin)

    @property
    def smin(self) -> Fr:
        return self.tmin - self.dt if self.kind == "H" else self.tmin + self.dt

    @property
    def smax(self) -> Fr:
        return self.tmax - self.dt if self.kind == "H" else self.tmax + self.dt

    def lo(self, shifted: bool) -> Fr:
        return self.smin if shifted else self.tmin

    def hi(self, shifted: bool) -> Fr:
        return self.smax if shifted else self.tmax


def rstream(d: dict) -> Optional[RS]:
    """Reference stream from an input stream dict (documented conventions only)."""
    ts, tt, q = fr(d["t_supply"]), fr(d["t_target"]), fr(d["heat_flow"])
    dt, htc = fr(d["dt_cont"]), fr(d.get("htc", 1) or 1)
    if ts > tt:
        return RS("H", tt, ts, dt, q, htc, d.get("name", ""))
    if ts < tt:
        return RS("C", ts, tt, dt, q, htc, d.get("name", ""))
    if q > 0:
        return RS("C", ts, ts + ISO_DT, dt, q, htc, d.get("name", ""))
    return None


def rstreams(ds: Iterable[dict]) -> List[RS]:
    out = []
    for d in ds:
        r = rstream(d)
        if r is not None:
            out.append(r)
    return out


def below(s: RS, T: Fr, shifted: bool = True) -> Fr:
    """Heat content of stream s below temperature T on the chosen scale."""
    lo, hi = s.lo(shifted), s.hi(shifted)
    if T <= lo:
        return Fr(0)
    return s.cp * (min(T, hi) - lo)


def above(s: RS, T: Fr, shifted: bool = True) -> Fr:
    return s.q - below(s, T, shifted)


def breakpoints(ss: Sequence[RS], shifted: bool = True, extra: Iterable[Fr] = ()) -> List[Fr]:
    pts = set(extra)
    for s in ss:
        pts.add(s.lo(shifted))
        pts.add(s.hi(shifted))
    return sorted(pts, reverse=True)


def min_gap(values: Iterable[Fr]) -> Optional[Fr]:
    v = sorted(set(values))
    if len(v) < 2:
        return None
    return min(b - a for a, b in zip(v, v[1:]))


@dataclass
class Cascade:
    hot: List[RS]
    cold: List[RS]
    SH: Fr  # total hot duty
    SC: Fr  # total cold duty
    Qh: Fr
    Qc: Fr
    Qr: Fr
    T: List[Fr]  # shifted breakpoints, descending
    D: List[Fr]  # net deficit above T[i]
    R: List[Fr]  # residual heat flow at T[i] (the GCC): Qh - D

    @property
    def total(self) -> Fr:
        return self.SH + self.SC

    def deficit_above(self, T: Fr) -> Fr:
        return sum((above(s, T) for s in self.cold), Fr(0)) - sum((above(s, T) for s in self.hot), Fr(0))

    def residual(self, T: Fr) -> Fr:
        return self.Qh - self.deficit_above(T)

    def hot_below(self, T: Fr, shifted: bool = True) -> Fr:
        return sum((below(s, T, shifted) for s in self.hot), Fr(0))

    def cold_below(self, T: Fr, shifted: bool = True) -> Fr:
        return sum((below(s, T, shifted) for s in self.cold), Fr(0))

    def cp_between(self, kind: str, T_hi: Fr, T_lo: Fr, shifted: bool = True) -> Fr:
        """Exact CP sum of streams of ``kind`` active on the open interval (T_lo, T_hi)."""
        src = self.hot if kind == "H" else self.cold
        mid = (T_hi + T_lo) / 2
        return sum((s.cp for s in src if s.lo(shifted) < mid < s.hi(shifted)), Fr(0))


def cascade(ss: Sequence[RS]) -> Cascade:
    hot = [s for s in ss if s.kind == "H"]
    cold = [s for s in ss if s.kind == "C"]
    SH = sum((s.q for s in hot), Fr(0))
    SC = sum((s.q for s in cold), Fr(0))
    T = breakpoints(ss, True)
    D = [sum((above(s, t) for s in cold), Fr(0)) - sum((above(s, t) for s in hot), Fr(0)) for t in T]
    Qh = max([Fr(0)] + D)
    Qc = Qh - SC + SH
    Qr = SH - Qc
    R = [Qh - d for d in D]
    return Cascade(hot, cold, SH, SC, Qh, Qc, Qr, T, D, R)


def zero_set(c: Cascade) -> List[Tuple[Fr, Fr]]:
    """Zero set of the residual as a list of closed runs [hi, lo] (points have hi == lo), hottest first.

    The residual is piecewise linear between breakpoints, non-negative, so zeros inside an
    interval only occur when both ends are zero.
    """
    runs: List[Tuple[Fr, Fr]] = []
    i, n = 0, len(c.T)
    while i < n:
        if c.R[i] == 0:
            j = i
            while j + 1 < n and c.R[j + 1] == 0:
                j += 1
            runs.append((c.T[i], c.T[j]))
            i = j + 1
        else:
            i += 1
    return runs


def interp(T: Sequence[Fr], V: Sequence[Fr], t: Fr) -> Fr:
    """Piecewise-linear interpolation on a descending grid; end value outside."""
    if t >= T[0]:
        return V[0]
    if t <= T[-1]:
        return V[-1]
    for a in range(len(T) - 1):
        if T[a] >= t >= T[a + 1]:
            if T[a] == T[a + 1]:
                return V[a]
            w = (T[a] - t) / (T[a] - T[a + 1])
            return V[a] + w * (V[a + 1] - V[a])
    raise AssertionError("unreachable")


def envelope(T: Sequence[Fr], R: Sequence[Fr]) -> Tuple[List[Fr], List[Fr]]:
    """Pocket-free GCC of a piecewise-linear GCC with min == 0.

    Above the hottest zero: NP(t) = min over t' >= t of R(t');  below the coldest zero:
    NP(t) = min over t' <= t of R(t'); zero between.  Returned on the breakpoints of R
    plus the exact pocket-closure temperatures (new breakpoints).
    """
    n = len(T)
    zeros = [i for i in range(n) if R[i] == 0]
    if not zeros:
        raise ValueError("GCC has no zero")
    ih, ic = zeros[0], zeros[-1]
    pts = {}  # temperature -> NP value
    # above the pinch: sweep from the top downward keeping the running minimum
    run = R[0] if n else Fr(0)
    for i in range(0, ih + 1):
        if R[i] < run:
            # the running minimum was crossed inside (T[i-1], T[i]) at value `run`... (closure handled below)
            run = R[i]
        pts[T[i]] = min(run, R[i])
    # closures above: where the curve, coming from a local min at level m, later (lower T) rises above m and
    # finally drops through m again -> breakpoint at the drop-through temperature.
    run = R[0]
    for i in range(1, ih + 1):
        if R[i] < run:
            if R[i - 1] > run:
                # crossing of level `run` inside the interval
                w = (R[i - 1] - run) / (R[i - 1] - R[i])
                tc = T[i - 1] + w * (T[i] - T[i - 1])
                pts[tc] = run
            run = R[i]
    # below the pinch: mirror sweep from the bottom upward
    run = R[n - 1]
    for i in range(n - 1, ic - 1, -1):
        if R[i] < run:
            run = R[i]
        pts[T[i]] = min(run, R[i])
    run = R[n - 1]
    for i in range(n - 2, ic - 1, -1):
        if R[i] < run:
            if R[i + 1] > run:
                w = (R[i + 1] - run) / (R[i + 1] - R[i])
                tc = T[i + 1] + w * (T[i] - T[i + 1])
                pts[tc] = run
            run = R[i]
    for i in range(ih, ic + 1):
        pts[T[i]] = Fr(0)
    Ts = sorted(pts, reverse=True)
    return Ts, [pts[t] for t in Ts]


def closures(T: Sequence[Fr], R: Sequence[Fr]) -> List[Fr]:
    """Temperatures where a pocket closes strictly inside an interval (new breakpoints)."""
    Ts, _ = envelope(T, R)
    old = set(T)
    return [t for t in Ts if t not in old]
