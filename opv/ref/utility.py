"""Reference utility grand composite curve and lexicographic LP optimum (independent of OpenPinch)."""
from __future__ import annotations

from fractions import Fraction as Fr
from typing import List, Optional, Sequence, Tuple

from . import cascade as C


def hot_below(q: Fr, ts: Fr, tt: Fr, T: Fr) -> Fr:
    """Heat a hot utility (shifted supply ts > target tt, duty q) releases below temperature T."""
    if T <= tt:
        return Fr(0)
    if T >= ts:
        return q
    return q * (T - tt) / (ts - tt)


def cold_above(q: Fr, ts: Fr, tt: Fr, T: Fr) -> Fr:
    """Heat a cold utility (shifted supply ts < target tt, duty q) absorbs above temperature T."""
    if T >= tt:
        return Fr(0)
    if T <= ts:
        return q
    return q * (tt - T) / (tt - ts)


def utility_gcc(hot: Sequence[dict], cold: Sequence[dict], T: Fr) -> Fr:
    """U(T) = hot-utility heat released below T + cold-utility heat absorbed above T.

    A cascade with these utilities is feasible iff U(T) <= process GCC(T) everywhere; because
    U is monotone on each side of the pinch this is the same as U <= pocket-free GCC.
    """
    u = Fr(0)
    for h in hot:
        u += hot_below(h["qf"], h["tsf"], h["ttf"], T)
    for c in cold:
        u += cold_above(c["qf"], c["tsf"], c["ttf"], T)
    return u


def frac_rows(rows: List[dict]) -> List[dict]:
    out = []
    for r in rows:
        d = dict(r)
        d["qf"] = Fr(repr(float(r["q"])))
        d["tsf"] = Fr(repr(round(float(r["ts"]), 6)))
        d["ttf"] = Fr(repr(round(float(r["tt"]), 6)))
        out.append(d)
    return out


def lex_optimum(side: str, levels: List[dict], Te: Sequence[Fr], Ne: Sequence[Fr], pinch: Fr, total: Fr, first_only: bool = False) -> Optional[List[float]]:
    """Lexicographic LP: lowest grade first (coldest hot utility / hottest cold utility).

    levels: dicts with tsf/ttf (shifted supply/target).  Te/Ne: exact pocket-free envelope.
    Returns duties in the order of ``levels`` or None when the LP is infeasible.
    """
    import numpy as np
    from scipy.optimize import linprog

    n = len(levels)
    if n == 0:
        return []
    pts = set()
    for t in Te:
        if (side == "hot" and t >= pinch) or (side == "cold" and t <= pinch):
            pts.add(t)
    for lv in levels:
        for t in (lv["tsf"], lv["ttf"]):
            if (side == "hot" and t >= pinch) or (side == "cold" and t <= pinch):
                pts.add(t)
    pts.add(pinch)
    A, b = [], []
    for t in sorted(pts):
        row = []
        for lv in levels:
            if side == "hot":
                row.append(float(hot_below(Fr(1), lv["tsf"], lv["ttf"], t)))
            else:
                row.append(float(cold_above(Fr(1), lv["tsf"], lv["ttf"], t)))
        A.append(row)
        b.append(float(C.interp(Te, Ne, t)))
    A, b = np.array(A), np.array(b)
    A_eq, b_eq = np.ones((1, n)), np.array([float(total)])
    order = sorted(range(n), key=lambda k: levels[k]["tsf"], reverse=(side == "cold"))
    lb = [0.0] * n
    ub = [None] * n
    scale = max(1.0, float(total))
    for k in order:
        cvec = np.zeros(n)
        cvec[k] = -1.0
        res = linprog(cvec, A_ub=A, b_ub=b + 1e-9 * scale, A_eq=A_eq, b_eq=b_eq, bounds=list(zip(lb, ub)), method="highs")
        if res.status != 0:
            return None
        best = res.x[k]
        if first_only:
            return [float(best) if j == k else float("nan") for j in range(n)]  # only the lowest-grade level is decided
        lb[k] = max(0.0, best - 1e-9 * scale)
        ub[k] = best + 1e-9 * scale
    res = linprog(np.zeros(n), A_ub=A, b_ub=b + 1e-9 * scale, A_eq=A_eq, b_eq=b_eq, bounds=list(zip(lb, ub)), method="highs")
    if res.status != 0:
        return None
    return [float(x) for x in res.x]
