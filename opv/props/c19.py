"""C19  Stream and stream-collection objects stay consistent under any use (two state machines)."""
from __future__ import annotations

from hypothesis import strategies as st
from hypothesis.stateful import initialize, rule, precondition

from ..core.machine import LoggedMachine
from ..core.sut import call_sut
from ..core.types import Fail, Outcome, Part

PID = "C19"
RULE = (
    "machine 'stream': a Stream built from generated values, then up to 12 (thorough 30) setter calls in any order (t_supply, t_target, "
    "heat_flow by property and by set_heat_flow, dt_cont, htc > 0), including assignments that flip supply and target or pass through "
    "equality; model = the five numbers with the documented latent expansion; invariants after every step (CP x span = duty, bounds, kind, shift direction, htr = 1/htc and the resistance-capacity product rCP = CP / htc kept by the same helper). machine 'collection': "
    "add / add_many (with and without keys) / remove (present, absent) / replace / set_sort_key (attribute, list, callable; both directions) / "
    "+ / get_index / iterate / len / contains over streams with a four-letter name alphabet (clashes); model = list of member identities + "
    "Python sorted(). non-trivial = history of >= 3 operations with one after a cached iteration (collection) or with a flip / equality "
    "assignment (stream); distinct by canonical JSON of the concrete operation log."
)
ASSUMPTIONS = [
    "coefficients > 0 (documented domain); duties are positive or, in a quarter of the assignments, negative (the source sign convention the code accepts: it makes an isothermal stream a heat source); members are not mutated while inside a collection",
    "ties in the sort key may appear in any order (checked: permutation of the members and monotone in the key)",
    "float comparisons 1e-9 relative",
]

TEMPS = [20.0, 40.0, 60.0, 60.0, 80.0, 100.0, 150.0, 200.0, 35.5, 99.99, 0.0, 0.0, -15.0]  # 0.0 is a valid temperature, not a missing one


def close(a, b, scale=1.0):
    return abs(a - b) <= 1e-9 * (1 + abs(scale) + abs(b))


# ------------------------------------------------------------------------------------ stream machine
class StreamInterp:
    def __init__(self, init):
        from OpenPinch.classes.stream import Stream

        self.m = dict(init)  # ts, tt, q, dt, htc
        self.s = Stream(name="S", t_supply=init["ts"], t_target=init["tt"], heat_flow=init["q"], dt_cont=init["dt"], htc=init["htc"])
        self._expand()
        self.flips = 0

    def _expand(self):
        if self.m["ts"] == self.m["tt"] and self.m["q"] > 0:
            self.m["tt"] = self.m["ts"] + 0.01  # documented: becomes a 0.01 K cold (latent) stream
        elif self.m["ts"] == self.m["tt"] and self.m["q"] < 0:
            self.m["tt"] = self.m["ts"] - 0.01  # source sign convention: a negative duty makes it a 0.01 K hot (latent) stream

    def step(self, op):
        m, s = self.m, self.s
        was_hot = m["ts"] > m["tt"]
        k, v = op["set"], op["value"]
        if k == "t_supply":
            m["ts"] = v
            ok, r = call_sut(setattr, s, "t_supply", v)
        elif k == "t_target":
            m["tt"] = v
            ok, r = call_sut(setattr, s, "t_target", v)
        elif k == "heat_flow":
            m["q"] = v
            ok, r = call_sut(setattr, s, "heat_flow", v)
        elif k == "set_heat_flow":
            m["q"] = v
            ok, r = call_sut(s.set_heat_flow, v)
        elif k == "dt_cont":
            m["dt"] = v
            ok, r = call_sut(setattr, s, "dt_cont", v)
        elif k == "htc":
            m["htc"] = v
            ok, r = call_sut(setattr, s, "htc", v)
        else:
            raise ValueError(k)
        if not ok:
            return [Fail("C19.sut_exception:" + r, f"{k}={v} raised {r}: {call_sut.last_message}")]
        if m["ts"] == m["tt"]:
            self.flips += 1
        self._expand()
        if (m["ts"] > m["tt"]) != was_hot:
            self.flips += 1
        return self.invariants(f"after {k}={v}")

    def invariants(self, ctx):
        m, s = self.m, self.s
        f = []
        lo, hi = min(m["ts"], m["tt"]), max(m["ts"], m["tt"])
        hot = m["ts"] > m["tt"]
        if not (s.t_min <= s.t_max):
            f.append(Fail("C19.stream_min_le_max", f"{ctx}: t_min={s.t_min!r} > t_max={s.t_max!r}"))
        if not (close(s.t_min, lo) and close(s.t_max, hi)):
            f.append(Fail("C19.stream_bounds", f"{ctx}: bounds ({s.t_min!r}, {s.t_max!r}) but supply/target are ({s.t_supply!r}, {s.t_target!r}) [model ({m['ts']}, {m['tt']})]"))
            return f
        span = s.t_max - s.t_min
        if not close(s.CP * span, m["q"], m["q"]):
            f.append(Fail("C19.stream_cp_times_span", f"{ctx}: CP={s.CP!r} x span {span!r} = {s.CP * span!r} but duty is {m['q']!r} (heat_flow attr {s.heat_flow!r})"))
        if not close(s.heat_flow, m["q"], m["q"]):
            f.append(Fail("C19.stream_duty", f"{ctx}: heat_flow={s.heat_flow!r} but {m['q']!r} was assigned"))
        kind = s.type
        want_kind = "Hot" if hot else "Cold"
        if kind != want_kind:
            f.append(Fail("C19.stream_kind", f"{ctx}: type={kind!r} but supply {s.t_supply!r} / target {s.t_target!r} make it {want_kind}"))
        sign = -1.0 if kind == "Hot" else 1.0
        if not (close(s.t_min_star, s.t_min + sign * m["dt"]) and close(s.t_max_star, s.t_max + sign * m["dt"])):
            f.append(Fail("C19.stream_shift_direction", f"{ctx}: type={kind!r}, bounds ({s.t_min!r}, {s.t_max!r}), contribution {m['dt']!r} but shifted bounds are ({s.t_min_star!r}, {s.t_max_star!r})"))
        if not close(s.htr, 1.0 / m["htc"]):
            f.append(Fail("C19.stream_resistance", f"{ctx}: htr={s.htr!r} but 1/htc={1.0 / m['htc']!r} (htc attr {s.htc!r})"))
        elif s.rCP is not None and not close(s.rCP, s.CP / m["htc"], abs(s.CP / m["htc"])):
            # the product of that resistance and the heat-capacity flow rate, kept by the same helper
            f.append(Fail("C19.stream_resistance_capacity_product", f"{ctx}: rCP={s.rCP!r} but CP x (1/htc) = {s.CP / m['htc']!r}"))
        return f


def eval_stream(case) -> Outcome:
    out = Outcome()
    it = StreamInterp(case["init"])
    fails = it.invariants("after construction")
    if not fails:
        for op in case["ops"]:
            fails = it.step(op)
            if fails:
                break
    out.fails.extend(fails)
    finalize_stream(out, case["init"], case["ops"], it.flips)
    return out


def finalize_stream(out, init, ops, flips):
    for op in ops:
        out.labels.add("set:" + op["set"])
    if flips:
        out.labels.add("flip-or-equality")
    out.nontrivial = len(ops) >= 3 and flips > 0


def stream_machine(col, tier):
    temp = st.sampled_from(TEMPS)
    pos = st.one_of(st.sampled_from([1.0, 10.0, 100.0, 2500.0]), st.integers(1, 100000).map(lambda k: k / 10))
    # the source sign convention (negative duty = heat source) is accepted too: it decides the kind of an isothermal stream
    pos = st.one_of(pos, pos, pos, pos.map(lambda x: -x))

    class StreamMachine(LoggedMachine):
        @initialize(ts=temp, tt=temp, q=pos, dt=st.sampled_from([0.0, 2.5, 5.0, 10.0]), htc=st.sampled_from([1.0, 0.5, 2.0, 0.05]))
        def setup(self, ts, tt, q, dt, htc):
            self.init = {"ts": ts, "tt": tt, "q": q, "dt": dt, "htc": htc}
            self.it = StreamInterp(self.init)
            fails = self.it.invariants("after construction")
            if fails:
                self.record({"set": "construct", "value": 0}, fails)
                self.ops.pop()

        def _do(self, k, v):
            if self.dead or self.init is None:
                return
            op = {"set": k, "value": v}
            self.record(op, self.it.step(op))

        @rule(v=temp)
        def set_supply(self, v):
            self._do("t_supply", v)

        @rule(v=temp)
        def set_target(self, v):
            self._do("t_target", v)

        @rule(v=pos)
        def set_duty(self, v):
            self._do("heat_flow", v)

        @rule(v=pos)
        def set_duty_method(self, v):
            self._do("set_heat_flow", v)

        @rule(v=st.sampled_from([0.0, 1.0, 2.5, 5.0, 7.5, 20.0]))
        def set_contribution(self, v):
            self._do("dt_cont", v)

        @rule(v=st.sampled_from([1.0, 0.5, 2.0, 0.05, 4.0, 0.25]))
        def set_coefficient(self, v):
            self._do("htc", v)

        def finalize(self, out):
            finalize_stream(out, self.init, self.ops, self.it.flips if self.init else 0)

    StreamMachine.col = col
    return StreamMachine


# -------------------------------------------------------------------------------- collection machine
SORTS = {
    "t_supply": lambda s: s.t_supply,
    "heat_flow": lambda s: s.heat_flow,
    "name": lambda s: s.name,
    "list:t_target,t_supply": lambda s: (s.t_target, s.t_supply),
    "callable:dt_cont": lambda s: s.dt_cont,
}


class CollInterp:
    """Real StreamCollection(s) + model.  Streams are created from specs and referred to by index."""

    def __init__(self):
        from OpenPinch.classes.stream_collection import StreamCollection

        self.SC = StreamCollection
        self.c = StreamCollection()
        self.members = []  # model: list of (key or None, stream) in insertion order; identity matters
        self.pool = []  # every stream ever created
        self.sort = ("t_supply", True)  # documented default: by t_supply, descending
        self.iterated = False
        self.after_cache = 0

    def mk(self, spec):
        from OpenPinch.classes.stream import Stream

        s = Stream(name=spec["name"], t_supply=spec["ts"], t_target=spec["tt"], heat_flow=spec["q"], dt_cont=spec["dt"], htc=1.0)
        self.pool.append(s)
        return s

    def keys_now(self):
        return list(self.c._streams.keys())

    def step(self, op):
        k = op["op"]
        f = []
        if self.iterated and k in ("add", "add_many", "remove", "replace", "set_sort_key"):
            self.after_cache += 1
        if k == "add":
            s = self.mk(op["stream"])
            before = [(id(x)) for x in self.c._streams.values()]
            if op.get("overwrite"):
                # an explicit overwrite (prevent_overwrite=False): under an existing key the new stream takes the old one's
                # place - requested, not silent - and the collection then holds the new stream only
                keys = self.keys_now()
                key = keys[op["idx"] % len(keys)] if keys and op.get("existing") else (op.get("key") or s.name)
                old = self.c._streams.get(key)
                ok, r = call_sut(self.c.add, s, key, False)
                if not ok:
                    return [Fail("C19.sut_exception:" + r, f"add(prevent_overwrite=False) raised {r}: {call_sut.last_message}")]
                if old is not None:
                    gone = False
                    kept = []
                    for m in self.members:  # the same object may sit under another key as well: one occurrence goes
                        if m is old and not gone:
                            gone = True
                        else:
                            kept.append(m)
                    self.members = kept
                self.members.append(s)
                return f + self.invariants("after add(prevent_overwrite=False)")
            ok, r = call_sut(self.c.add, s, op.get("key"))
            if not ok:
                return [Fail("C19.sut_exception:" + r, f"add raised {r}: {call_sut.last_message}")]
            self.members.append(s)
        elif k == "add_many":
            ss = [self.mk(x) for x in op["streams"]]
            keys = op.get("keys")
            ok, r = call_sut(self.c.add_many, ss, keys)
            if not ok:
                return [Fail("C19.sut_exception:" + r, f"add_many raised {r}: {call_sut.last_message}")]
            self.members.extend(ss)
        elif k == "remove":
            keys = self.keys_now()
            if op["present"] and keys:
                key = keys[op["idx"] % len(keys)]
                victim = self.c._streams[key]
                ok, r = call_sut(self.c.remove, key)
                if not ok:
                    return [Fail("C19.sut_exception:" + r, f"remove({key!r}) of a present key raised {r}")]
                self.members = [m for m in self.members if m is not victim] + []
                # the same object may have been added twice under different keys: remove one occurrence only
            else:
                key = "no-such-key"
                ok, r = call_sut(self.c.remove, key)
                if ok or not r.startswith("KeyError"):
                    f.append(Fail("C19.coll_remove_absent", f"remove of an absent key returned {r!r} instead of raising KeyError"))
        elif k == "replace":
            ss = [self.mk(x) for x in op["streams"]]
            d = {f"k{i}": s for i, s in enumerate(ss)}
            ok, r = call_sut(self.c.replace, d)
            if not ok:
                return [Fail("C19.sut_exception:" + r, f"replace raised {r}: {call_sut.last_message}")]
            self.members = list(ss)
        elif k == "set_sort_key":
            name, rev = op["key"], op["reverse"]
            arg = name
            if name.startswith("list:"):
                arg = name[5:].split(",")
            elif name.startswith("callable:"):
                arg = SORTS[name]
            ok, r = call_sut(self.c.set_sort_key, arg, rev)
            if not ok:
                return [Fail("C19.sut_exception:" + r, f"set_sort_key raised {r}")]
            self.sort = (name, rev)
        elif k == "concat":
            other = self.SC()
            oss = [self.mk(x) for x in op["streams"]]
            for s in oss:
                other.add(s)
            ok, r = call_sut(lambda: self.c + other)
            if not ok:
                return [Fail("C19.sut_exception:" + r, f"+ raised {r}")]
            got = list(r._streams.values())
            want = self.members + oss
            if sorted(map(id, got)) != sorted(map(id, want)) or len(r) != len(want):
                f.append(Fail("C19.coll_concat", f"a + b holds {len(got)} members (len() {len(r)}) but the operands hold {len(self.members)} + {len(oss)}"))
            if op.get("adopt"):
                self.c = r
                self.members = want
                self.sort = ("t_supply", True)
                self.iterated = False
        elif k == "iterate":
            self.iterated = True
        elif k == "get_index":
            if self.members:
                s = self.members[op["idx"] % len(self.members)]
                ok, r = call_sut(self.c.get_index, s)
                if not ok:
                    f.append(Fail("C19.coll_get_index", f"get_index of a member raised {r}"))
                else:
                    seq = list(self.c)
                    if not (0 <= r < len(seq)) or seq[r] is not s:
                        f.append(Fail("C19.coll_get_index", f"get_index returned {r} but that position holds a different stream"))
            self.iterated = True
        else:
            raise ValueError(k)
        return f + self.invariants(f"after {k}")

    def invariants(self, ctx):
        f = []
        c = self.c
        held = list(c._streams.values())
        if sorted(map(id, held)) != sorted(map(id, self.members)):
            lost = [m.name for m in self.members if all(m is not h for h in held)]
            f.append(Fail("C19.coll_members", f"{ctx}: collection holds {len(held)} members, model {len(self.members)}; lost {lost}"))
            return f
        if len(c) != len(self.members):
            f.append(Fail("C19.coll_len", f"{ctx}: len()={len(c)} but {len(self.members)} members"))
        seq = list(c)
        if sorted(map(id, seq)) != sorted(map(id, self.members)):
            f.append(Fail("C19.coll_iteration_members", f"{ctx}: iteration yields {len(seq)} items {[s.name for s in seq]} but the members are {[s.name for s in self.members]}"))
            return f
        keyf, rev = SORTS[self.sort[0]], self.sort[1]
        ks = [keyf(s) for s in seq]
        okk = all((a >= b) if rev else (a <= b) for a, b in zip(ks, ks[1:]))
        if not okk:
            f.append(Fail("C19.coll_iteration_order", f"{ctx}: iteration keys {ks} not {'descending' if rev else 'ascending'} for sort key {self.sort[0]}"))
        for i in range(len(seq)):
            if c[i] is not seq[i]:
                f.append(Fail("C19.coll_getitem", f"{ctx}: c[{i}] differs from the {i}-th iterated item"))
                break
        for key, s in c._streams.items():
            if key not in c or c[key] is not s:
                f.append(Fail("C19.coll_contains", f"{ctx}: key {key!r} not found through 'in' / []"))
                break
        return f


def eval_coll(case) -> Outcome:
    out = Outcome()
    it = CollInterp()
    for op in case["ops"]:
        fails = it.step(op)
        if fails:
            out.fails.extend(fails)
            break
    finalize_coll(out, case["ops"], it.after_cache)
    return out


def finalize_coll(out, ops, after_cache):
    for op in ops:
        out.labels.add("op:" + op["op"])
        if op["op"] == "replace" and len({s["name"] for s in op["streams"]}) < len(op["streams"]):
            out.labels.add("replace-with-duplicate-names")
            out.rc.add("replace-with-duplicate-names")
        if op["op"] in ("add", "add_many") and (op.get("key") or op.get("keys")):
            out.labels.add("explicit-keys")
    names = [s["name"] for op in ops for s in ([op["stream"]] if op["op"] == "add" else op.get("streams", []))]
    if len(set(names)) < len(names):
        out.labels.add("clashing-names")
    if after_cache:
        out.labels.add("mutation-after-cached-iteration")
    out.nontrivial = len(ops) >= 3 and after_cache > 0


def coll_machine(col, tier):
    spec = st.fixed_dictionaries(
        {
            "name": st.sampled_from(["A", "B", "C", "A_1", "A"]),
            "ts": st.sampled_from(TEMPS),
            "tt": st.sampled_from([25.0, 45.0, 65.0, 85.0, 120.0, 300.0]),
            "q": st.sampled_from([10.0, 20.0, 20.0, 500.0, 75.5]),
            "dt": st.sampled_from([0.0, 5.0, 10.0]),
        }
    )

    class CollectionMachine(LoggedMachine):
        @initialize()
        def setup(self):
            self.init = {}
            self.it = CollInterp()

        def _do(self, op):
            if self.dead or self.init is None:
                return
            self.record(op, self.it.step(op))

        @rule(s=spec, key=st.sampled_from([None, None, "A", "k", "A_1"]))
        def add(self, s, key):
            self._do({"op": "add", "stream": s, "key": key})

        @rule(s=spec, idx=st.integers(0, 50), existing=st.sampled_from([True, True, False]), key=st.sampled_from([None, "A", "k"]))
        def add_overwriting(self, s, idx, existing, key):
            self._do({"op": "add", "stream": s, "overwrite": True, "idx": idx, "existing": existing, "key": key})

        @rule(ss=st.lists(spec, min_size=0, max_size=4), with_keys=st.booleans())
        def add_many(self, ss, with_keys):
            keys = [["A", "B", "A", "k"][i % 4] for i in range(len(ss))] if with_keys and ss else None
            self._do({"op": "add_many", "streams": ss, "keys": keys})

        @rule(idx=st.integers(0, 50), present=st.sampled_from([True, True, True, False]))
        def remove(self, idx, present):
            self._do({"op": "remove", "idx": idx, "present": present})

        @rule(ss=st.lists(spec, min_size=0, max_size=4))
        def replace(self, ss):
            self._do({"op": "replace", "streams": ss})

        @rule(key=st.sampled_from(sorted(SORTS)), reverse=st.booleans())
        def set_sort_key(self, key, reverse):
            self._do({"op": "set_sort_key", "key": key, "reverse": reverse})

        @rule(ss=st.lists(spec, min_size=0, max_size=3), adopt=st.booleans())
        def concat(self, ss, adopt):
            self._do({"op": "concat", "streams": ss, "adopt": adopt})

        @rule()
        def iterate(self):
            self._do({"op": "iterate"})

        @rule(idx=st.integers(0, 50))
        def get_index(self, idx):
            self._do({"op": "get_index", "idx": idx})

        def finalize(self, out):
            finalize_coll(out, self.ops, self.it.after_cache)

    CollectionMachine.col = col
    return CollectionMachine


PARTS = [
    Part("stream", eval_stream, {"quick": 1500, "thorough": 50000}, machine=stream_machine, steps={"quick": 12, "thorough": 30}, min_nontrivial={"quick": 300, "thorough": 8000}),
    Part("collection", eval_coll, {"quick": 1500, "thorough": 50000}, machine=coll_machine, steps={"quick": 12, "thorough": 30}, min_nontrivial={"quick": 300, "thorough": 8000}),
]
MIN_SHARE = {"collection": {"clashing-names": 0.3, "mutation-after-cached-iteration": 0.24, "op:concat": 0.19, "op:replace": 0.18}}
