"""C20  Effectiveness-NTU and LMTD relations are mutually consistent."""
from __future__ import annotations

import math

from hypothesis import strategies as st

from ..core.types import Outcome, Part
from ..core.sut import call_sut

PID = "C20"
RULE = (
    "part entu: every HeatExchangerTypes member x {enum member, its text} x NTU in (0,10] x c in [0,1] (0 and 1 boosted, 6-dp grid) "
    "x passes 1..4, plus a second NTU for monotonicity and a reachable effectiveness for the inverse direction; non-trivial = "
    "effectiveness < 1-1e-9 so the inverse is well posed; distinct by canonical JSON of the case. "
    "part lmtd: positive end-difference pairs (>=1e-3, equal, nearly equal with relative gap 1e-9..1e-3, scalar and array form) and "
    "non-positive pairs for the refusal; non-trivial = both differences positive and different."
)
ASSUMPTIONS = [
    "NTU 'reachable by that arrangement': for cross-flow both-mixed the textbook curve has an interior maximum; round-trip and monotonicity are asserted on the increasing branch only (maximiser located numerically from the library's own curve on a 2000-point grid)",
    "'never exceeds the counter-flow value' is compared with an independent counter-flow formula written in the harness",
    "for 'Condensing or Evaporating' the capacity ratio is zero by definition: the counter-flow bound is asserted at c=0 only",
    "capacity ratios are drawn on a 1e-6 grid so that the c->1 cancellation in the closed forms stays below 1e-9",
]

ARRS = ["CF", "PF", "CrFUU", "CrFMM", "CrFMUmax", "CrFMUmin", "ShellTube", "CondEvap"]
SECANT = {"CrFUU", "CrFMM"}


def cf_ref(ntu, c):
    if c == 1:
        return ntu / (1 + ntu)
    x = math.exp(-ntu * (1 - c))
    return (1 - x) / (1 - c * x)


def _label(arr, form):
    from OpenPinch.lib.enums import HeatExchangerTypes as HX

    m = HX[arr]
    return m if form == "member" else m.value


_argmax_cache = {}


def _mm_argmax(c, passes):
    """NTU at which the library's cross-flow both-mixed curve peaks (inf if monotone on (0,10])."""
    from OpenPinch.utils.heat_exchanger import HX_Eff
    from OpenPinch.lib.enums import HeatExchangerTypes as HX

    key = (c, passes)
    if key not in _argmax_cache:
        best, arg = -1.0, math.inf
        prev = -1.0
        for i in range(1, 2001):
            n = 10.0 * i / 2000
            try:
                e = HX_Eff(HX.CrFMM, n, c, passes)
            except Exception:
                continue
            if e < prev - 1e-12 and arg == math.inf:
                arg = 10.0 * (i - 1) / 2000
                break
            prev = e
        _argmax_cache[key] = arg
    return _argmax_cache[key]


def eval_entu(case) -> Outcome:
    from OpenPinch.utils.heat_exchanger import HX_Eff, HX_NTU

    out = Outcome()
    arr, form, ntu, ntu2, c, P, efrac = case["arr"], case["form"], case["ntu"], case["ntu2"], case["c"], case["passes"], case["efrac"]
    lab = _label(arr, form)
    other = _label(arr, "text" if form == "member" else "member")
    out.labels.update({f"arr={arr}", f"form={form}", f"passes={P}"})
    if c == 0:
        out.labels.add("c=0")
    if c == 1:
        out.labels.add("c=1")
    out.rc.add(f"arr={arr}")
    if c == 0:
        out.rc.add(f"arr={arr},c=0")
    passes_arg = None if (P == 1 and case.get("passes_none")) else P

    ok, e = call_sut(HX_Eff, lab, ntu, c, passes_arg)
    if not ok:
        out.fail("C20.sut_exception:" + e, f"HX_Eff({arr}/{form}, {ntu}, {c}, {P}) raised {e}")
        return out
    if not isinstance(e, (int, float)) or e != e:
        out.fail("C20.range", f"eff={e!r}")
        return out
    out.nontrivial = e < 1 - 1e-9
    # --- label forms agree
    ok2, e_other = call_sut(HX_Eff, other, ntu, c, passes_arg)
    if not ok2:
        out.fail("C20.sut_exception:" + e_other, f"HX_Eff({arr}/other form) raised {e_other}")
    elif abs(e_other - e) > 1e-12:
        out.fail("C20.form_agree_eff", f"{arr}: eff({form})={e!r} vs other form {e_other!r} at NTU={ntu}, c={c}, P={P}")
    # --- range
    if not (-1e-12 <= e <= 1 + 1e-12):
        out.fail("C20.range", f"{arr}: eff={e!r} outside [0,1] at NTU={ntu}, c={c}, P={P}")
    # --- c = 0 limit
    if c == 0 and abs(e - (1 - math.exp(-ntu))) > 1e-9:
        out.fail("C20.c0_limit", f"{arr}: eff={e!r} but 1-exp(-NTU)={1 - math.exp(-ntu)!r}")
    # --- counter-flow bound
    if arr != "CondEvap" or c == 0:
        bound = cf_ref(ntu, c)
        if e > bound + 1e-9:
            out.fail("C20.le_counterflow", f"{arr}: eff={e!r} > counter-flow {bound!r} at NTU={ntu}, c={c}, P={P}")
    # --- increasing branch
    limit = math.inf
    if arr == "CrFMM":
        limit = _mm_argmax(c, P)
        if limit < math.inf:
            out.labels.add("mm-beyond-max" if max(ntu, ntu2) > limit else "mm-increasing-branch")
    lo, hi = min(ntu, ntu2), max(ntu, ntu2)
    if hi <= limit and hi > lo:
        ok3, e_lo = call_sut(HX_Eff, lab, lo, c, passes_arg)
        ok4, e_hi = call_sut(HX_Eff, lab, hi, c, passes_arg)
        if ok3 and ok4 and e_hi < e_lo - 1e-12:
            out.fail("C20.monotone", f"{arr}: eff({hi})={e_hi!r} < eff({lo})={e_lo!r} at c={c}, P={P}")
    # --- round trip starting from NTU
    tol = 1e-4 if arr in SECANT else 1e-6
    if ntu <= limit and 1e-9 < e < 1 - 1e-9:
        ok5, n_back = call_sut(HX_NTU, lab, e, c, passes_arg)
        if not ok5:
            out.fail("C20.sut_exception:" + n_back, f"HX_NTU({arr}/{form}, {e!r}, {c}, {P}) raised {n_back}")
        else:
            ok6, n_other = call_sut(HX_NTU, other, e, c, passes_arg)
            if ok6 and abs(n_other - n_back) > 1e-9 * max(1.0, abs(n_back)):
                out.fail("C20.form_agree_ntu", f"{arr}: NTU({form})={n_back!r} vs other form {n_other!r} at eff={e!r}, c={c}")
            if not (isinstance(n_back, (int, float)) and n_back > 0 and math.isfinite(n_back)):
                out.fail("C20.roundtrip_from_ntu", f"{arr}: HX_NTU(eff={e!r}, c={c}, P={P}) = {n_back!r} for NTU={ntu}")
            else:
                ok7, e_back = call_sut(HX_Eff, lab, n_back, c, passes_arg)
                if ok7 and abs(e_back - e) > tol:
                    out.fail("C20.roundtrip_from_ntu", f"{arr}: NTU={ntu} -> eff={e!r} -> NTU'={n_back!r} -> eff'={e_back!r} (c={c}, P={P})")
                # NTU error scaled by the local slope of the library's own curve
                h = 1e-6 * max(1.0, ntu)
                ok8, e_h = call_sut(HX_Eff, lab, ntu + h, c, passes_arg)
                if ok8:
                    slope = abs(e_h - e) / h
                    if abs(n_back - ntu) * slope > 10 * tol:
                        out.fail("C20.roundtrip_ntu_scaled", f"{arr}: NTU={ntu} came back as {n_back!r}; slope {slope:.3g} (c={c}, P={P})")
    # --- round trip starting from a reachable effectiveness
    top = min(10.0, limit)
    ok9, e_top = call_sut(HX_Eff, lab, top, c, passes_arg)
    if ok9 and isinstance(e_top, (int, float)) and 0 < e_top <= 1 + 1e-9:
        e0 = efrac * min(e_top, 1 - 1e-9)
        if 1e-6 < e0 < 1 - 1e-9:
            ok10, n0 = call_sut(HX_NTU, lab, e0, c, passes_arg)
            if not ok10:
                out.fail("C20.sut_exception:" + n0, f"HX_NTU({arr}/{form}, {e0!r}, {c}, {P}) raised {n0}")
            elif not (isinstance(n0, (int, float)) and n0 > 0 and math.isfinite(n0)):
                out.fail("C20.roundtrip_from_eff", f"{arr}: HX_NTU(eff={e0!r}, c={c}, P={P}) = {n0!r} although eff(NTU={top})={e_top!r}")
            else:
                ok11, e1 = call_sut(HX_Eff, lab, n0, c, passes_arg)
                if ok11 and abs(e1 - e0) > tol:
                    out.fail("C20.roundtrip_from_eff", f"{arr}: eff={e0!r} -> NTU={n0!r} -> eff'={e1!r} (c={c}, P={P})")
    return out


def eval_lmtd(case) -> Outcome:
    import numpy as np
    from OpenPinch.utils.heat_exchanger import compute_LMTD_from_dts

    out = Outcome()
    d1, d2, arr = case["d1"], case["d2"], case["array"]
    pos = d1 > 0 and d2 > 0
    out.labels.add("positive" if pos else "non-positive")
    if arr:
        out.labels.add("array")
    a1 = [d1, d1 * 2 if d1 > 0 else 1.0] if arr else d1
    a2 = [d2, d2 * 3 if d2 > 0 else 1.0] if arr else d2
    ok, v = call_sut(compute_LMTD_from_dts, a1, a2)
    if not pos:
        if ok:
            out.fail("C20.lmtd_refusal", f"LMTD({d1},{d2}) returned {v!r} instead of raising")
        elif not v.startswith("ValueError"):
            out.fail("C20.lmtd_refusal", f"LMTD({d1},{d2}) raised {v} instead of ValueError")
        out.nontrivial = True
        return out
    if not ok:
        out.fail("C20.sut_exception:" + v, f"LMTD({d1},{d2}) raised {v}")
        return out
    val = float(np.asarray(v).reshape(-1)[0])
    out.nontrivial = d1 != d2
    if abs(d1 - d2) / max(d1, d2) < 1e-3:
        out.labels.add("nearly-equal" if d1 != d2 else "equal")
    lo, hi = min(d1, d2), (d1 + d2) / 2
    rt = 1e-9 * hi
    if not (lo - rt <= val <= hi + rt):
        out.fail("C20.lmtd_bounds", f"LMTD({d1},{d2})={val!r} not in [{lo},{hi}]")
    ok2, v2 = call_sut(compute_LMTD_from_dts, a2, a1)
    if not ok2:
        out.fail("C20.sut_exception:" + v2, f"LMTD({d2},{d1}) raised {v2}")
    else:
        val2 = float(np.asarray(v2).reshape(-1)[0])
        if abs(val2 - val) > rt:
            out.fail("C20.lmtd_symmetric", f"LMTD({d1},{d2})={val!r} vs swapped {val2!r}")
    if d1 != d2 and abs(d1 - d2) / max(d1, d2) > 1e-3:
        ref = (d1 - d2) / math.log(d1 / d2)
        if abs(val - ref) > 1e-9 * ref:
            out.fail("C20.lmtd_value", f"LMTD({d1},{d2})={val!r} vs log-mean {ref!r}")
    return out


def _ntu():
    return st.one_of(
        st.floats(0.001, 10.0, allow_nan=False).map(lambda x: round(x, 6)),
        st.floats(0.001, 0.2).map(lambda x: round(x, 6)),
        st.sampled_from([0.001, 0.01, 0.1, 0.5, 1.0, 2.0, 3.0, 5.0, 7.5, 10.0]),
    ).filter(lambda x: 0 < x <= 10)


def _c():
    return st.one_of(
        st.sampled_from([0.0, 1.0, 0.0, 1.0, 0.5, 0.25, 0.75, 1e-6, 0.999999]),
        st.integers(0, 10**6).map(lambda k: k / 10**6),
        # the neighbourhoods of the two special values (balanced and single-stream forms switch there)
        st.integers(1, 5000).map(lambda k: 1 - k / 10**6),
        st.integers(1, 5000).map(lambda k: k / 10**6),
        st.sampled_from([0.99, 0.995, 0.999, 0.9995, 0.9999, 0.01, 0.001]),
    )


def strat_entu(tier):
    return st.fixed_dictionaries(
        {
            "arr": st.sampled_from(ARRS),
            "form": st.sampled_from(["member", "text"]),
            "ntu": _ntu(),
            "ntu2": _ntu(),
            "c": _c(),
            "passes": st.sampled_from([1, 1, 2, 3, 4]),
            "passes_none": st.booleans(),
            "efrac": st.one_of(st.floats(0.01, 0.999).map(lambda x: round(x, 6)), st.sampled_from([0.5, 0.9, 0.99, 0.999])),
        }
    )


def strat_lmtd(tier):
    pos = st.one_of(st.floats(1e-3, 1e4).map(lambda x: float(f"{x:.6g}")), st.sampled_from([1.0, 10.0, 5.0, 0.001, 40.0, 1e4]))

    def near(d):
        return st.tuples(st.just(d), st.sampled_from([1e-9, 1e-8, 1e-7, 1e-6, 1e-5, 1e-4, 1e-3]), st.booleans()).map(lambda t: (t[0], t[0] * (1 + t[1]) if t[2] else t[0] * (1 - t[1])))

    pairs = st.one_of(
        st.tuples(pos, pos),
        pos.map(lambda d: (d, d)),
        pos.flatmap(near),
        st.tuples(st.sampled_from([0.0, -1.0, -1e-3, -50.0]), pos),
        st.tuples(pos, st.sampled_from([0.0, -1.0, -1e-3, -50.0])),
        st.tuples(st.sampled_from([0.0, -1.0, -1e-3, -50.0, -10.0]), st.sampled_from([0.0, -1.0, -20.0, -10.0, -1e-3])),  # both non-positive
    )
    return st.tuples(pairs, st.booleans()).map(lambda t: {"d1": t[0][0], "d2": t[0][1], "array": t[1]})


PARTS = [
    Part("entu", eval_entu, {"quick": 12000, "thorough": 500000}, strategy=strat_entu, min_nontrivial={"quick": 2000, "thorough": 50000}),
    Part("lmtd", eval_lmtd, {"quick": 3000, "thorough": 100000}, strategy=strat_lmtd, min_nontrivial={"quick": 500, "thorough": 10000}),
]
MIN_SHARE = {"entu": {"c=0": 0.05, "c=1": 0.05, "form=text": 0.25, "form=member": 0.25}}

FUZZ = {"entu": None}  # parts also driven by the coverage-guided supplement (thorough tier)
