"""C05  Composite curves and problem tables are faithful to the streams."""
from __future__ import annotations

from fractions import Fraction as Fr

from hypothesis import strategies as st

from ..core.types import Outcome, Part
from ..gen import problems as G
from ..gen import service as S
from ..ref import cascade as C
from . import _pipeline as P

PID = "C05"
RULE = (
    "problems (2-8 streams, thorough 2-12) with unequal non-zero contributions, utilities (extra rows), pockets and projections; oracle on "
    "the shifted and the real-temperature table of every DI target, at every row: H_hot = exact hot heat content below T on that scale, "
    "H_cold - exact cold content = one constant = Qc, spans = total duties, H_net = H_cold - H_hot >= 0 with a zero on the shifted table, "
    "both tables end in (Qh, Qc), and row bookkeeping dT_i = T_(i-1) - T_i, CP_i = exact CP sum of interval i, dH_i = CP_i dT_i = H_(i-1) - H_i "
    "for hot, cold and net. part direct: the anchored entry get_process_heat_cascade called the way a library user would (Stream / StreamCollection objects built by the harness, all_streams left to its default, given, or given in the other order; shifted, then real with the known recovery): same table oracle, plus recovery read from the table = exact Qr, and the same oracle again after a generated set of further temperatures (two or more beyond an edge, some inside) is inserted into the finished tables in one call; non-trivial (direct) = hot and cold streams with Qr > 0. non-trivial (service) = some stream has dt_cont > 0 and the shifted table holds at least one row that is not a stream "
    "or utility temperature (projection / pocket closure); distinct by canonical JSON."
)
ASSUMPTIONS = [
    "the pipeline rounds its tables to 4 dp before exposing them: tolerances are 5.1e-5 x (1 + local CP sum) + 1e-6 x total duty",
    "isothermal (0.01 K) streams make the local CP huge; rows within 1e-4 K of such a stream get the correspondingly wide tolerance",
    "temperatures on the 1e-3 K grid (thirds excluded in 80% of cases so that 4-dp rounding of T is exact)",
]

HOT, COLD, NET = "H_hot", "H_cold", "H_net"
COLS = {
    "hot": ("mcp_hot_tot", "ΔH_hot", HOT),
    "cold": ("mcp_cold_tot", "ΔH_cold", COLD),
    "net": ("CP_NET", "ΔH_net", NET),
}


def local_cp(c: C.Cascade, T: Fr, shifted: bool) -> Fr:
    """Largest total CP active within 1e-4 K of T (bounds the effect of 4-dp rounding of T)."""
    w = Fr(1, 10000)
    tot = Fr(0)
    for s in c.hot + c.cold:
        if s.lo(shifted) - w <= T <= s.hi(shifted) + w:
            tot += s.cp
    return tot


def check_table(out: Outcome, c: C.Cascade, pt, shifted: bool, where: str, tag: str, known_T: set):
    import numpy as np

    n = len(pt)
    if n == 0:
        out.fail(f"C05.{tag}_empty", f"{where}: empty table")
        return
    eps = P.eps_of(c)
    import math

    for col in ("T", "ΔT", HOT, COLD, NET, "mcp_hot_tot", "mcp_cold_tot", "ΔH_hot", "ΔH_cold", "ΔH_net"):
        if any(not math.isfinite(float(x)) for x in pt.col[col]):
            out.fail(f"C05.{tag}_non_finite", f"{where}: column {col} holds a value that is not a finite number")  # a NaN would pass every |a - b| > tol test below
            return
    T = [Fr(repr(float(x))) for x in pt.col["T"]]
    hh, hc, hn = pt.col[HOT], pt.col[COLD], pt.col[NET]
    # rows strictly descending
    for i in range(1, n):
        if T[i] > T[i - 1]:  # rows closer than 1e-4 K legitimately collapse under the 4-dp rounding
            out.fail(f"C05.{tag}_rows_order", f"{where}: T not descending at row {i}: {float(T[i - 1])} -> {float(T[i])}")
            return
    offs = []
    for i in range(n):
        tol = 5.1e-5 * (1 + float(local_cp(c, T[i], shifted))) + eps
        eh = float(c.hot_below(T[i], shifted))
        ec = float(c.cold_below(T[i], shifted))
        if abs(float(hh[i]) - eh) > tol:
            out.fail(f"C05.{tag}_hot_curve", f"{where}: row {i} T={float(T[i])}: H_hot={float(hh[i])!r} but exact hot heat below T is {eh!r} (tol {tol:.3g})")
            break
        off = float(hc[i]) - ec
        if abs(off - float(c.Qc)) > tol:
            out.fail(f"C05.{tag}_cold_curve", f"{where}: row {i} T={float(T[i])}: H_cold - exact cold heat below T = {off!r} but Qc = {float(c.Qc)!r} (tol {tol:.3g})")
            break
        if abs(float(hn[i]) - (float(hc[i]) - float(hh[i]))) > 1.6e-4 + eps:
            out.fail(f"C05.{tag}_net_is_cold_minus_hot", f"{where}: row {i}: H_net={float(hn[i])!r} vs H_cold-H_hot={float(hc[i]) - float(hh[i])!r}")
            break
        if float(hn[i]) < -(5.1e-5 + eps):
            out.fail(f"C05.{tag}_net_nonneg", f"{where}: row {i}: H_net={float(hn[i])!r} < 0")
            break
    tol_end = 5.1e-5 + eps
    if abs(float(hh[0]) - float(hh[-1]) - float(c.SH)) > 2 * tol_end:
        out.fail(f"C05.{tag}_hot_span", f"{where}: hot curve spans {float(hh[0]) - float(hh[-1])!r} but hot duty is {float(c.SH)!r}")
    if abs(float(hc[0]) - float(hc[-1]) - float(c.SC)) > 2 * tol_end:
        out.fail(f"C05.{tag}_cold_span", f"{where}: cold curve spans {float(hc[0]) - float(hc[-1])!r} but cold duty is {float(c.SC)!r}")
    if abs(float(hn[0]) - float(c.Qh)) > tol_end or abs(float(hn[-1]) - float(c.Qc)) > tol_end:
        out.fail(f"C05.{tag}_ends", f"{where}: H_net ends ({float(hn[0])!r}, {float(hn[-1])!r}) but (Qh, Qc) = ({float(c.Qh)!r}, {float(c.Qc)!r})")
    if shifted and (c.hot or c.cold) and float(np.min(np.abs(hn))) > tol_end:
        out.fail(f"C05.{tag}_touches_zero", f"{where}: shifted H_net never reaches zero (min {float(np.min(hn))!r})")
    # --- row bookkeeping
    dT = pt.col["ΔT"]
    for i in range(n):
        want = 0.0 if i == 0 else float(T[i - 1] - T[i])
        if abs(float(dT[i]) - want) > 1.6e-4:
            out.fail(f"C05.{tag}_delta_T", f"{where}: row {i} T={float(T[i])}: dT={float(dT[i])!r} but gap to the row above is {want!r}")
            break
    for kind, (cpk, dhk, hk) in COLS.items():
        cp, dh, H = pt.col[cpk], pt.col[dhk], pt.col[hk]
        for i in range(1, n):
            gap = T[i - 1] - T[i]
            if gap < Fr(3, 10000):
                continue  # narrower than the rounding of T: interval CP not observable
            if kind == "net":
                ecp = float(c.cp_between("C", T[i - 1], T[i], shifted) - c.cp_between("H", T[i - 1], T[i], shifted))
            else:
                ecp = float(c.cp_between("H" if kind == "hot" else "C", T[i - 1], T[i], shifted))
            # an interval whose ends were rounded across a stream end is not a clean interval: skip if any stream bound lies within 1e-4 of either end strictly inside
            dirty = False
            for s in c.hot + c.cold:
                for b in (s.lo(shifted), s.hi(shifted)):
                    if T[i] < b < T[i - 1] and (b - T[i] < Fr(1, 10000) or T[i - 1] - b < Fr(1, 10000)):
                        dirty = True
            if dirty:
                continue
            ctol = 5.1e-5 + 1e-9 * abs(ecp)
            if abs(float(cp[i]) - ecp) > ctol:
                out.fail(f"C05.{tag}_cp_{kind}", f"{where}: row {i} (T {float(T[i - 1])} -> {float(T[i])}): CP_{kind}={float(cp[i])!r} but exact interval CP is {ecp!r}")
                break
            g = float(gap)
            exp_dh = ecp * g
            dtol = abs(ecp) * 1.1e-4 + g * 5.1e-5 + 1.1e-4 + eps
            if abs(float(dh[i]) - exp_dh) > dtol:
                out.fail(f"C05.{tag}_dh_{kind}", f"{where}: row {i} (T {float(T[i - 1])} -> {float(T[i])}): dH_{kind}={float(dh[i])!r} but CP x dT = {exp_dh!r}")
                break
            step = float(H[i - 1]) - float(H[i])
            if abs(float(dh[i]) - step) > dtol:
                out.fail(f"C05.{tag}_dh_vs_curve_{kind}", f"{where}: row {i}: dH_{kind}={float(dh[i])!r} but H({float(T[i - 1])}) - H({float(T[i])}) = {step!r}")
                break
    # inserted rows (not a stream / utility temperature)
    extra = [t for t in T if all(abs(t - k) > Fr(1, 10000) for k in known_T)]
    return len(extra)


def eval_case(case) -> Outcome:
    out = Outcome()
    an = P.Analysis(case, out, "C05")
    if not an.ok:
        return out
    P.classify_site(out, an)
    has_dt = any(C.fr(s["dt_cont"]) > 0 for s in case["streams"])
    if len({float(C.fr(s["dt_cont"])) for s in case["streams"]}) > 1:
        out.labels.add("unequal-contributions")
    for path, zone, c in an.zones:
        t = an.target(zone, S.DI)
        if t is None:
            continue
        where = "/".join(path) or "<site>"
        for shifted, pt, tag in ((True, t.pt, "shifted"), (False, t.pt_real, "real")):
            known = set()
            for s in c.hot + c.cold:
                known.add(s.lo(shifted))
                known.add(s.hi(shifted))
            for u in list(t.hot_utilities) + list(t.cold_utilities):
                for v in ((u.t_min_star, u.t_max_star) if shifted else (u.t_min, u.t_max)):
                    known.add(Fr(repr(round(float(v), 6))))
            n_extra = check_table(out, c, pt, shifted, where, tag, known)
            if n_extra:
                out.labels.add(f"inserted-rows-{tag}")
                if has_dt and shifted:
                    out.nontrivial = True
    return out


def eval_direct(case) -> Outcome:
    """The anchored entry point called directly, as a library user would: get_process_heat_cascade(hot, cold[, all])."""
    from OpenPinch.analysis.problem_table_analysis import get_heat_recovery_target_from_pt, get_process_heat_cascade
    from OpenPinch.classes.stream import Stream
    from OpenPinch.classes.stream_collection import StreamCollection

    from ..core.sut import call_sut

    out = Outcome()
    hot, cold = StreamCollection(), StreamCollection()
    for d in case["streams"]:
        s = Stream(name=d["name"], t_supply=d["t_supply"], t_target=d["t_target"], heat_flow=d["heat_flow"], dt_cont=d["dt_cont"], htc=d["htc"], is_process_stream=True)
        (hot if d["t_supply"] > d["t_target"] else cold).add(s)
    c = C.cascade(C.rstreams(case["streams"]))
    out.labels.add("all_streams-" + case["all_streams"])
    out.labels.add("only-one-kind" if not (c.hot and c.cold) else "hot-and-cold")
    if len({float(C.fr(d["dt_cont"])) for d in case["streams"]}) > 1:
        out.labels.add("unequal-contributions")
    kw = {}
    if case["all_streams"] == "given":
        kw["all_streams"] = hot + cold
    elif case["all_streams"] == "given-reversed":
        kw["all_streams"] = cold + hot
    ok, pt = call_sut(get_process_heat_cascade, hot, cold, is_shifted=True, **kw)
    if not ok:
        out.fail("C05.sut_exception:" + pt, f"get_process_heat_cascade raised {pt}: {call_sut.last_message}")
        return out
    qr = float(get_heat_recovery_target_from_pt(pt))
    ok, pt_real = call_sut(get_process_heat_cascade, hot, cold, is_shifted=False, known_heat_recovery=qr, **kw)
    if not ok:
        out.fail("C05.sut_exception:" + pt_real, f"get_process_heat_cascade(is_shifted=False) raised {pt_real}: {call_sut.last_message}")
        return out
    if abs(qr - float(c.Qr)) > P.eps_of(c):
        out.fail("C05.direct_recovery", f"heat recovery read from the shifted table is {qr!r} but the exact value is {float(c.Qr)!r}")
    for shifted, tbl, tag in ((True, pt, "shifted"), (False, pt_real, "real")):
        known = set()
        for s in c.hot + c.cold:
            known.add(s.lo(shifted))
            known.add(s.hi(shifted))
        n_extra = check_table(out, c, tbl, shifted, "direct call", "direct_" + tag, known)
        if n_extra:
            out.labels.add(f"inserted-rows-{tag}")
    # extra temperatures put into the finished tables in one call (two or more beyond an edge, some inside): the row
    # bookkeeping and the curves must still agree with the streams (the top row alone keeps its pinned width, so a
    # single temperature above the range is not used here)
    ins = case.get("insert") or []
    if ins:
        for shifted, tbl, tag in ((True, pt, "shifted"), (False, pt_real, "real")):
            Tcol = [float(x) for x in tbl.col["T"]]
            hi, lo = max(Tcol), min(Tcol)
            temps = []
            for kind, a in ins:
                if kind == "above":
                    temps += [hi + a, hi + 2 * a + 1.0]
                elif kind == "below":
                    temps += [lo - a, lo - 2 * a - 1.0]
                else:
                    temps.append(round(lo + (hi - lo) * a, 3))
            ok, n_added = call_sut(tbl.insert_temperature_interval, temps)
            if not ok:
                out.fail("C05.sut_exception:" + n_added, f"insert_temperature_interval({temps}) raised {n_added}: {call_sut.last_message}")
                continue
            out.labels.add("rows-inserted-afterwards")
            known = set()
            for s in c.hot + c.cold:
                known.add(s.lo(shifted))
                known.add(s.hi(shifted))
            check_table(out, c, tbl, shifted, f"direct call + insert {temps}", "direct_inserted_" + tag, known)
    out.nontrivial = bool(c.hot and c.cold) and c.Qr > 0
    return out


@st.composite
def direct_case(draw, tier):
    mx = 8 if tier == "quick" else 12
    shape = draw(st.sampled_from(["mixed", "mixed", "mixed", None]))
    ss = draw(G.streams(2 if shape else 1, mx, False, shape, 0.0, thirds=draw(st.integers(0, 4)) == 0))
    ins = draw(st.lists(st.one_of(st.tuples(st.just("above"), st.sampled_from([5.0, 20.0])), st.tuples(st.just("below"), st.sampled_from([5.0, 30.0])), st.tuples(st.just("inside"), st.sampled_from([0.1, 0.37, 0.5, 0.9]))), min_size=0, max_size=3))
    return {"streams": ss, "all_streams": draw(st.sampled_from(["default", "default", "given", "given-reversed"])), "insert": [list(x) for x in ins]}


def strategy(tier):
    mx = 8 if tier == "quick" else 12
    return G.with_options(st.one_of(
        G.problem(min_streams=3, max_streams=mx, shape="mixed", thirds=False),
        G.problem(min_streams=3, max_streams=mx, shape="mixed", thirds=False, iso_share=0.0),
        G.problem(min_streams=2, max_streams=mx, shape="mixed", multi_zone=True, thirds=False),
        G.problem(min_streams=2, max_streams=mx, thirds=False, with_utilities=False),
        G.problem(min_streams=2, max_streams=mx, shape="mixed"),
    ))


PARTS = [
    Part("service", eval_case, {"quick": 1000, "thorough": 30000}, strategy=strategy, min_nontrivial={"quick": 200, "thorough": 5000}),
    Part("direct", eval_direct, {"quick": 1500, "thorough": 40000}, strategy=direct_case, min_nontrivial={"quick": 400, "thorough": 10000}),
]
MIN_SHARE = {"service": {"unequal-contributions": 0.3, "inserted-rows-shifted": 0.2, "inserted-rows-real": 0.2}, "direct": {"rows-inserted-afterwards": 0.2, "all_streams-default": 0.25, "all_streams-given": 0.09, "unequal-contributions": 0.3}}
