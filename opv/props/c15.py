"""C15  Area, exchanger-count and capital-cost targets follow their definitions."""
from __future__ import annotations

import math

from hypothesis import strategies as st

from ..core.sut import call_sut
from ..core.types import Outcome, Part
from ..gen import problems as G
from ..gen import service as S
from ..ref import cascade as C
from . import _pipeline as P

PID = "C15"
RULE = (
    "part pipeline: problems (2-7 streams, thorough 2-10) with strictly positive contributions on every stream and utility, varied film "
    "coefficients, default or isothermal utilities that can cover the range, DO_AREA_TARGETING on and generated cost parameters; oracle: "
    "balanced composite curves have equal spans; the area target equals an independent Bath-formula sum (enthalpy intervals from the "
    "streams and the reported utility duties, duty-weighted film resistances, counter-current LMTD) and is finite and positive; the "
    "capital and annualised costs on the target equal N(a + b(A/N)^c) and capital x CRF for the reported A and N. part cost: direct "
    "calls of compute_capital_cost / compute_capital_recovery_factor / compute_annual_capital_cost over generated parameters: formula, "
    "annuity identity sum_t CRF/(1+i)^t = 1 for rates from 0.01 % to 600 % per period (rates above 1 are legitimate positive rates) and lives of 1-50 periods, strict monotonicity in area. non-trivial (pipeline) = at least 3 enthalpy intervals with "
    "interleaved stream and utility breakpoints; distinct by canonical JSON."
)
ASSUMPTIONS = [
    "the Bath reference uses the utility duties and temperatures reported on the target (C03/C04 decide whether those are right)",
    "area tolerance 1e-4 relative; stream duties are >= 50 kW because the routine rounds its curves to 6 dp internally (tiny duties lose relative precision by design)",
    "cases whose utility duties do not close (known finding C02-F1) are excluded by its input-only predicate",
    "an eighth of the problems carry plant-scale duties (sensible streams x 10, up to 1 GW); latent streams keep <= 100 MW because the library represents them as 0.01 K spans and rounds temperatures to 6 dp, which at a CP of 1e8 kW/K is an enthalpy error of tens of kW - a representation limit, not one of the listed clauses",
]


def build_curve(segs):
    """segs: [(tlo, thi, cp, htc)] -> list of (T, H) ascending in T with cumulative H (0 at the cold end)."""
    pts = sorted({t for s in segs for t in (s[0], s[1])})
    H = [0.0]
    for a, b in zip(pts, pts[1:]):
        cp = sum(s[2] for s in segs if s[0] <= a and s[1] >= b)
        H.append(H[-1] + cp * (b - a))
    return pts, H


def t_at(pts, H, h, side):
    """Temperature at enthalpy h. side '+' : just above h (upper end of a gap), '-' : just below (lower end)."""
    n = len(pts)
    if side == "+":
        k = max([i for i in range(n) if H[i] <= h + 1e-9 * (1 + abs(h))] or [0])
        if k == n - 1:
            return pts[-1]
        if H[k + 1] == H[k]:
            return pts[k]
        return pts[k] + (h - H[k]) / (H[k + 1] - H[k]) * (pts[k + 1] - pts[k])
    k = min([i for i in range(n) if H[i] >= h - 1e-9 * (1 + abs(h))] or [n - 1])
    if k == 0:
        return pts[0]
    if H[k] == H[k - 1]:
        return pts[k]
    return pts[k - 1] + (h - H[k - 1]) / (H[k] - H[k - 1]) * (pts[k] - pts[k - 1])


def resistance(segs, ta, tb):
    mid = (ta + tb) / 2
    act = [s for s in segs if s[0] <= mid <= s[1]]
    cp = sum(s[2] for s in act)
    if cp <= 0:
        return 0.0
    return sum(s[2] / s[3] for s in act) / cp


def bath_area(hot, cold):
    ph, Hh = build_curve(hot)
    pc, Hc = build_curve(cold)
    if abs(Hh[-1] - Hc[-1]) > 1e-6 * max(Hh[-1], Hc[-1]) + 1e-9:
        return None, 0, False  # not balanced: the Bath sum is undefined (the span check reports it)
    # remove the last-digit difference between the two totals
    k = Hh[-1] / Hc[-1] if Hc[-1] else 1.0
    Hc = [h * k for h in Hc]
    grid = sorted(set(round(h, 9) for h in Hh + Hc))
    area = 0.0
    n_int = 0
    gap = False
    bath_area.sens = 0.0
    for pts, HH in ((ph, Hh), (pc, Hc)):
        for i in range(1, len(pts) - 1):
            if HH[i] == HH[i + 1] and 0 < HH[i] < HH[-1] - 1e-9:
                gap = True
    for a, b in zip(grid, grid[1:]):
        if b - a <= 1e-9 * (1 + abs(b)):
            continue
        th1, th2 = t_at(ph, Hh, a, "+"), t_at(ph, Hh, b, "-")
        tc1, tc2 = t_at(pc, Hc, a, "+"), t_at(pc, Hc, b, "-")
        d1, d2 = th1 - tc1, th2 - tc2
        if d1 <= 0 or d2 <= 0:
            return None, n_int, gap
        lm = (d1 + d2) / 2 if abs(d1 - d2) < 1e-9 else (d1 - d2) / math.log(d1 / d2)
        r = resistance(hot, th1, th2) + resistance(cold, tc1, tc2)
        area += (b - a) * r / lm
        bath_area.sens = max(bath_area.sens, r / lm)
        n_int += 1
    return area, n_int, gap


def eval_pipeline(case) -> Outcome:
    from OpenPinch.utils.costing import compute_capital_cost, compute_capital_recovery_factor

    out = Outcome()
    an = P.Analysis(case, out, "C15")
    if not an.ok:
        return out
    P.classify_site(out, an)
    P.root_causes(out, an)
    opts = case.get("options") or {}
    if case.get("spelling") and any(case["spelling"]):
        out.labels.add("value-with-unit-spellings")
    for path, zone, c in an.zones:
        t = an.target(zone, S.DI)
        if t is None:
            continue
        where = "/".join(path) or "<site>"
        ok_attr = all(hasattr(t, nm) for nm in ("Area target", "Units target", "Capital cost target", "Annualised capital cost target"))
        if not ok_attr:
            out.fail("C15.targets_missing", f"{where}: area / units / cost attributes are not on the target")
            continue
        A, N = float(getattr(t, "Area target")), getattr(t, "Units target")
        cap, ann = float(getattr(t, "Capital cost target")), float(getattr(t, "Annualised capital cost target"))
        # --- balanced spans
        ptr = t.pt_real
        hb, cb = ptr.col["H_hot_balanced"], ptr.col["H_cold_balanced"]
        sh, sc = float(hb.max() - hb.min()), float(cb.max() - cb.min())
        eps = P.eps_of(c)
        if abs(sh - sc) > 2 * eps + 2.1e-4:
            out.fail("C15.balanced_spans", f"{where}: balanced hot curve spans {sh!r}, cold {sc!r}")
        # --- Bath reference from streams + reported utility duties
        hot = [(float(s.tmin), float(s.tmax), float(s.cp), float(s.htc)) for s in c.hot]
        cold = [(float(s.tmin), float(s.tmax), float(s.cp), float(s.htc)) for s in c.cold]
        # film coefficients come from the input (by utility name), not from what the run reports for them
        given = {u["name"]: float(u["htc"]) for u in case.get("utilities") or [] if u.get("htc")}
        for side, us in ((hot, t.hot_utilities), (cold, t.cold_utilities)):
            for u in us:
                h_in = given.get(u.name, float(u.htc))
                if u.name in given and not abs(float(u.htc) - h_in) <= 1e-12 * h_in:
                    out.fail("C15.utility_film_coefficient", f"{where}: utility {u.name} supplied with htc {h_in!r} is used with {float(u.htc)!r}")
                if u.heat_flow > 1e-9:
                    side.append((float(u.t_min), float(u.t_max), float(u.heat_flow) / float(u.t_max - u.t_min), h_in))
        if not hot or not cold:
            continue
        ref, n_int, gap = bath_area(hot, cold)
        if gap:
            out.rc.add("balanced-curve-has-interior-temperature-gap")
            out.labels.add("interior-temperature-gap")
        else:
            out.labels.add("no-temperature-gap")
        if path == () and n_int >= 3 and (any(u.heat_flow > 1e-9 for u in t.hot_utilities) or any(u.heat_flow > 1e-9 for u in t.cold_utilities)):
            out.nontrivial = True
        if not (math.isfinite(A) and A > 0):
            out.fail("C15.area_finite_positive", f"{where}: area target {A!r}")
        elif ref is None:
            out.labels.add("reference-crossing")
        elif abs(A - ref) > 1e-4 * ref + 2e-6 * n_int * bath_area.sens + 1e-9:  # second term: the routine rounds every enthalpy to 6 dp
            out.fail("C15.area_bath", f"{where}: area target {A!r} but the Bath formula gives {ref!r} ({n_int} enthalpy intervals, ratio {A / ref:.6f})")
        # --- cost definitions on the reported A and N
        a, b, cexp = float(opts.get("FIXED_COST", 0)), float(opts.get("VARIABLE_COST", 10000)), float(opts.get("COST_EXP", 0.6))
        i, n = float(opts.get("DISCOUNT_RATE", 0.07)), float(opts.get("SERV_LIFE", 20))
        if N and N > 0 and math.isfinite(A) and A > 0:
            want = N * (a + b * (A / N) ** cexp)
            if abs(cap - want) > 1e-9 * abs(want) + 1e-9:
                out.fail("C15.capital_cost", f"{where}: capital cost {cap!r} but N(a+b(A/N)^c) = {want!r} (A={A!r}, N={N!r})")
            crf = i * (1 + i) ** n / ((1 + i) ** n - 1)
            if abs(ann - cap * crf) > 1e-9 * abs(cap * crf) + 1e-9:
                out.fail("C15.annualised_cost", f"{where}: annualised cost {ann!r} but capital x CRF = {cap * crf!r}")
        elif not N or N <= 0:
            out.labels.add("units-target<=0")
            if c.hot and c.cold and c.Qr > 0:
                out.fail("C15.units_positive", f"{where}: units target {N!r} although heat is recovered (Qr={float(c.Qr)})")
    return out


def eval_cost(case) -> Outcome:
    from OpenPinch.utils.costing import compute_annual_capital_cost, compute_capital_cost, compute_capital_recovery_factor

    out = Outcome()
    A, N, a, b, c, i, n, f = case["A"], case["N"], case["a"], case["b"], case["c"], case["i"], case["n"], case["factor"]
    out.nontrivial = True
    ok, cap = call_sut(compute_capital_cost, A, N, a, b, c)
    if not ok:
        out.fail("C15.sut_exception:" + cap, f"compute_capital_cost raised {cap}")
        return out
    want = N * (a + b * (A / N) ** c)
    if abs(cap - want) > 1e-9 * abs(want):
        out.fail("C15.capital_cost", f"compute_capital_cost({A},{N},{a},{b},{c})={cap!r} but N(a+b(A/N)^c)={want!r}")
    ok, crf = call_sut(compute_capital_recovery_factor, i, n)
    if not ok:
        out.fail("C15.sut_exception:" + crf, f"compute_capital_recovery_factor raised {crf}")
        return out
    ann_sum = sum(crf / (1 + i) ** t for t in range(1, int(n) + 1))
    if float(n).is_integer() and abs(ann_sum - 1) > 1e-9:
        out.fail("C15.crf_annuity", f"CRF({i},{n})={crf!r}: discounted annuities sum to {ann_sum!r}, not 1")
    ok, ann = call_sut(compute_annual_capital_cost, cap, i, n)
    if ok and abs(ann - cap * crf) > 1e-9 * abs(cap * crf):
        out.fail("C15.annualised_cost", f"annual cost {ann!r} but capital x CRF = {cap * crf!r}")
    ok, cap2 = call_sut(compute_capital_cost, A * f, N, a, b, c)
    if ok:
        ann2 = compute_annual_capital_cost(cap2, i, n)
        if not (cap2 > cap and ann2 > ann):
            out.fail("C15.cost_monotone", f"area {A} -> {A * f}: capital {cap!r} -> {cap2!r}, annual {ann!r} -> {ann2!r} do not both increase")
    return out


@st.composite
def area_problem(draw, tier):
    mx = 7 if tier == "quick" else 10
    dts = st.sampled_from([0.5, 2.5, 5.0, 7.5, 10.0])
    pal = draw(G.palette(thirds=False))
    ss = draw(G.streams(2, mx, False, "mixed", draw(st.sampled_from([0.0, 0.0, 0.1])), dts=dts, pal=pal, thirds=False))
    for s in ss:
        if s["heat_flow"] < 50.0:
            s["heat_flow"] = round(s["heat_flow"] * 100.0 + 50.0, 3)  # the routine rounds enthalpies to 6 dp: keep duties well above that
    if draw(st.integers(0, 7)) == 0:
        for s in ss:  # plant-scale duties (up to 1 GW per stream): sums of that size carry float rounding of about 1e-6
            if abs(s["t_supply"] - s["t_target"]) >= 1.0:  # not the latent ones: 1 GW over 0.01 K is a CP of 1e8 kW/K (see ASSUMPTIONS)
                s["heat_flow"] = round(s["heat_flow"] * 10.0, 3)
    us = []
    if draw(st.booleans()):
        top = max(max(s["t_supply"], s["t_target"]) for s in ss)
        bot = min(min(s["t_supply"], s["t_target"]) for s in ss)
        for i in range(draw(st.integers(0, 2))):
            lv = round(top + draw(st.sampled_from([30.0, 60.0, 120.0])) - 40.0 * i, 3)
            us.append({"name": f"HU{i + 1}", "type": "Hot", "t_supply": lv, "t_target": lv, "heat_flow": None, "dt_cont": draw(dts), "htc": draw(st.sampled_from([0.5, 1.0, 4.0])), "price": 40.0, "active": True})
        for i in range(draw(st.integers(0, 2))):
            lv = round(bot - draw(st.sampled_from([30.0, 60.0, 120.0])) + 40.0 * i, 3)
            us.append({"name": f"CU{i + 1}", "type": "Cold", "t_supply": lv, "t_target": lv, "heat_flow": None, "dt_cont": draw(dts), "htc": draw(st.sampled_from([0.5, 1.0, 4.0])), "price": 10.0, "active": True})
    opts = {"DO_AREA_TARGETING": True, "DT_CONT": draw(st.sampled_from([2.5, 5.0, 10.0]))}
    if draw(st.booleans()):
        opts.update({"FIXED_COST": draw(st.sampled_from([0.0, 1000.0, 8000.0, 2500.75, 0.5])), "VARIABLE_COST": draw(st.sampled_from([100.0, 1200.0, 10000.0, 812.5, 0.9])), "COST_EXP": draw(st.sampled_from([0.5, 0.6, 0.81, 1.0])), "DISCOUNT_RATE": draw(st.sampled_from([0.001, 0.01, 0.07, 0.2, 1.0, 1.5, 4.0])), "SERV_LIFE": draw(st.sampled_from([1.0, 5.0, 20.0, 50.0, 12.5, 1.5]))})
    case = {"streams": ss, "utilities": us, "options": opts}
    if draw(st.integers(0, 2)) == 0:
        # every number independently a bare float or a value-with-unit object (S.apply_spelling); the reference uses the bare numbers
        case["spelling"] = draw(st.lists(st.integers(0, 3), min_size=3, max_size=11))
    return case


def strat_cost(tier):
    return st.fixed_dictionaries(
        {
            "A": st.one_of(st.floats(0.01, 1e5).map(lambda x: float(f"{x:.6g}")), st.sampled_from([1.0, 100.0, 2500.0])),
            "N": st.integers(1, 40),
            "a": st.sampled_from([0.0, 1000.0, 8000.0, 30000.0]),
            "b": st.sampled_from([1.0, 750.0, 10000.0]),
            "c": st.sampled_from([0.3, 0.5, 0.6, 0.81, 1.0]),
            "i": st.one_of(st.sampled_from([0.01, 0.07, 0.1, 0.5, 1.0, 1.5, 3.0]), st.integers(1, 500).map(lambda k: k / 1000), st.integers(1, 60).map(lambda k: k / 10), st.sampled_from([1e-4, 1e-3])),
            "n": st.integers(1, 50).map(float),
            "factor": st.sampled_from([1.001, 1.1, 2.0, 10.0]),
        }
    )


PARTS = [
    Part("pipeline", eval_pipeline, {"quick": 800, "thorough": 20000}, strategy=lambda tier: area_problem(tier), min_nontrivial={"quick": 200, "thorough": 5000}),
    Part("cost", eval_cost, {"quick": 2000, "thorough": 50000}, strategy=strat_cost, min_nontrivial={"quick": 800, "thorough": 20000}),
]
MIN_SHARE = {"pipeline": {"no-temperature-gap": 0.02, "interior-temperature-gap": 0.1}}
