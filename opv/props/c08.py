"""C08  Inserting temperature intervals never changes any curve (stateful, model-based)."""
from __future__ import annotations

import math

from hypothesis import strategies as st
from hypothesis.stateful import initialize, rule

from ..core.machine import LoggedMachine
from ..core.sut import call_sut
from ..core.types import Fail, Outcome, Part

PID = "C08"
RULE = (
    "RuleBasedStateMachine: initial table of 2-8 rows (T on a 0.5 K grid, any subset of the cumulative-enthalpy columns populated with "
    "arbitrary values, each heat-capacity pair present or NaN, interval widths consistent), then up to 12 (thorough 30) insertion calls: "
    "list or scalar; temperatures above the top, below the bottom, off-centre inside any interval, several per interval, exact duplicates, "
    "values within 4e-7 K of an existing row (inside tolerance), re-insertion of existing rows, empty list, unsorted order. Model = "
    "piecewise-linear column functions of the initial table (end value outside), CP step functions (0 outside), expected row set and "
    "expected return value; invariants after every call. non-trivial = history with >= 2 calls and >= 1 off-centre middle insertion; "
    "distinct by canonical JSON of (initial table, concrete operation list)."
)
ASSUMPTIONS = [
    "requested temperatures are either within 4e-7 K of an existing/requested value or >= 1e-3 K away from all of them (never in the ambiguous band around the 1e-6 tolerance)",
    "the interval width of the first row (no row above) is not asserted; a pinned unit test fixes it to the gap below for a single top insertion",
    "whole columns are NaN or populated (the pipeline never produces partially populated columns)",
    "float comparisons: 1e-9 x (1 + column magnitude)",
]

TOL_IN = 4e-7
FAR = 1e-3


def _labels():
    from OpenPinch.classes.problem_table import INTERPOLATION_KEYS, HEAT_CAPACITY_PAIRS

    return list(INTERPOLATION_KEYS), list(HEAT_CAPACITY_PAIRS)


class Interp:
    """Real ProblemTable + model, driven by concrete operations."""

    def __init__(self, init: dict):
        import numpy as np
        from OpenPinch.classes.problem_table import ProblemTable

        self.np = np
        self.T0 = list(init["T"])
        self.cols0 = {k: list(v) for k, v in init["cols"].items()}
        self.cp0 = {k: list(v) for k, v in init["cp"].items()}  # cp key -> per-row values (row 0 = 0)
        self.ikeys, self.pairs = _labels()
        data = {"T": self.T0, "ΔT": [0.0] + [a - b for a, b in zip(self.T0, self.T0[1:])]}
        for k, v in self.cols0.items():
            data[k] = v
        for cpk, dhk in self.pairs:
            if cpk in self.cp0:
                data[cpk] = self.cp0[cpk]
                data[dhk] = [c * d for c, d in zip(self.cp0[cpk], data["ΔT"])]
        self.pt = ProblemTable(data)
        self.rows = list(self.T0)  # model row set, descending
        self.n_calls = 0
        self.classes = set()

    # ---- model
    def f(self, key, t):
        T, V = self.T0, self.cols0[key]
        if t >= T[0]:
            return V[0]
        if t <= T[-1]:
            return V[-1]
        for a in range(len(T) - 1):
            if T[a] >= t >= T[a + 1]:
                w = (T[a] - t) / (T[a] - T[a + 1])
                return V[a] + w * (V[a + 1] - V[a])
        raise AssertionError

    def cp(self, key, t_hi, t_lo):
        mid = (t_hi + t_lo) / 2
        T = self.T0
        if mid >= T[0] or mid <= T[-1]:
            return 0.0
        for a in range(1, len(T)):
            if T[a - 1] > mid > T[a]:
                return self.cp0[key][a]
        return 0.0

    def expect_added(self, ts):
        added = []
        for t in ts:
            if all(abs(t - r) > 1e-6 for r in self.rows + added):
                added.append(t)
        return added

    # ---- one operation
    def step(self, op) -> list:
        np = self.np
        fails = []
        ts = op["T"]
        arg = ts[0] if op.get("scalar") and len(ts) == 1 else list(ts)
        form = op.get("form", "list")
        before = None
        if form == "array" and not op.get("scalar"):
            arg = np.array(ts, dtype=float)  # a float64 array: np.asarray() inside the routine will not copy it
            before = arg.copy()
        elif form == "own-column":
            arg = self.pt.col["T"]  # the table's own temperature column (a view of its buffer), as a caller holding it would pass it
        exp_new = self.expect_added(ts)
        ok, ret = call_sut(self.pt.insert_temperature_interval, arg)
        self.n_calls += 1
        if not ok:
            return [Fail("C08.sut_exception:" + ret, f"insert_temperature_interval({arg}) raised {ret}: {call_sut.last_message}")]
        if form == "own-column":
            arg = "<own T column>"
        self.rows = sorted(self.rows + exp_new, reverse=True)
        if ret != len(exp_new):
            fails.append(Fail("C08.return_count", f"insert({arg}) returned {ret!r} but {len(exp_new)} row(s) are new ({exp_new})"))
        fails += self.invariants(f"after insert({arg})")
        return fails

    def invariants(self, ctx) -> list:
        np = self.np
        fails = []
        pt = self.pt
        T = [float(x) for x in pt.col["T"]]
        # which of several requested values within tolerance of each other becomes the row is not specified
        if len(T) != len(self.rows) or any(abs(a - b) > 1e-6 for a, b in zip(T, self.rows)):
            fails.append(Fail("C08.row_set", f"{ctx}: rows {T} but expected {self.rows}"))
            return fails
        self.rows = list(T)
        for i in range(1, len(T)):
            if not T[i - 1] - T[i] > 1e-6:
                fails.append(Fail("C08.rows_strictly_descending", f"{ctx}: rows {T[i - 1]!r}, {T[i]!r} not strictly descending beyond tolerance"))
                return fails
        for key in self.ikeys:
            col = pt.col[key]
            if key not in self.cols0:
                if not np.isnan(col).all():
                    fails.append(Fail("C08.nan_column_stays_nan", f"{ctx}: column {key} was NaN and now holds {col.tolist()}"))
                continue
            scale = 1 + max(abs(v) for v in self.cols0[key])
            for i, t in enumerate(T):
                want = self.f(key, t)
                got = float(col[i])
                if not abs(got - want) <= 1e-9 * scale:
                    fails.append(Fail("C08.curve_changed", f"{ctx}: column {key} at T={t!r} is {got!r} but the curve there is {want!r}"))
                    break
        dT = pt.col["ΔT"]
        for i in range(1, len(T)):
            if not abs(float(dT[i]) - (T[i - 1] - T[i])) <= 1e-9 * (1 + abs(T[i])):
                fails.append(Fail("C08.delta_T", f"{ctx}: row {i} (T={T[i]!r}): width {float(dT[i])!r} but the gap to the row above ({T[i - 1]!r}) is {T[i - 1] - T[i]!r}"))
                break
        for cpk, dhk in self.pairs:
            cpc, dhc = pt.col[cpk], pt.col[dhk]
            if cpk not in self.cp0:
                if not (np.isnan(cpc).all() and np.isnan(dhc).all()):
                    fails.append(Fail("C08.nan_column_stays_nan", f"{ctx}: pair {cpk}/{dhk} was NaN and now holds {cpc.tolist()} / {dhc.tolist()}"))
                continue
            scale = 1 + max(abs(v) for v in self.cp0[cpk])
            for i in range(1, len(T)):
                want = self.cp(cpk, T[i - 1], T[i])
                if not abs(float(cpc[i]) - want) <= 1e-9 * scale:
                    fails.append(Fail("C08.heat_capacity", f"{ctx}: row {i} (T {T[i - 1]!r} -> {T[i]!r}): {cpk}={float(cpc[i])!r} but the interval's heat capacity is {want!r}"))
                    break
                wdh = want * (T[i - 1] - T[i])
                if not abs(float(dhc[i]) - wdh) <= 1e-9 * scale * (1 + abs(T[i - 1] - T[i])):
                    fails.append(Fail("C08.enthalpy_change", f"{ctx}: row {i} (T {T[i - 1]!r} -> {T[i]!r}): {dhk}={float(dhc[i])!r} but CP x width = {wdh!r}"))
                    break
        return fails


def finalize_history(out: Outcome, init, ops):
    n_mid_off = 0
    for op in ops:
        for k in op.get("kinds", []):
            out.labels.add(k)
            if k == "mid-offcentre":
                n_mid_off += 1
    out.labels.add(f"calls={min(len(ops), 5)}{'+' if len(ops) >= 5 else ''}")
    T0, cp0 = init["T"], init.get("cp") or {}
    idle = [i for i in range(1, len(T0)) if cp0 and all(v[i] == 0.0 for v in cp0.values())]
    if idle:
        out.labels.add("table-with-idle-interval")
        if any(T0[i] + 1e-3 < t < T0[i - 1] - 1e-3 for op in ops for t in op["T"] for i in idle):
            out.labels.add("insert-into-idle-interval")
    if any(len(op["T"]) == 0 for op in ops):
        out.labels.add("empty-request")
    out.nontrivial = len(ops) >= 2 and n_mid_off >= 1


def evaluate(case) -> Outcome:
    out = Outcome()
    it = Interp(case["init"])
    pre = it.invariants("initial table")
    if pre:
        out.skip = "initial table rejected by the model: " + pre[0].msg
        return out
    for op in case["ops"]:
        fails = it.step(op)
        if fails:
            out.fails.extend(fails)
            break
    finalize_history(out, case["init"], case["ops"])
    return out


@st.composite
def initial_table(draw):
    ikeys, pairs = _labels()
    n = draw(st.integers(2, 8))
    top = draw(st.integers(-100, 800)) / 2
    gaps = draw(st.lists(st.sampled_from([0.5, 1.0, 2.0, 5.0, 10.0, 25.0, 0.01, 100.0]), min_size=n - 1, max_size=n - 1))
    T = [top]
    for g in gaps:
        T.append(round(T[-1] - g, 6))
    val = st.one_of(st.integers(-2000, 2000).map(lambda k: k / 4), st.sampled_from([0.0, 0.0, 1.0, 100.0, 1e4]))
    keys = draw(st.lists(st.sampled_from(ikeys), min_size=1, max_size=6, unique=True))
    cols = {k: draw(st.lists(val, min_size=n, max_size=n)) for k in keys}
    cp = {}
    every_pair = draw(st.integers(0, 2)) == 0  # a third of the tables carry all heat-capacity columns, as pipeline tables do
    for cpk, dhk in pairs:
        if every_pair or draw(st.booleans()):
            cp[cpk] = [0.0] + draw(st.lists(st.integers(0, 400).map(lambda k: k / 8), min_size=n - 1, max_size=n - 1))
    # idle intervals: no stream crosses them (every populated heat-capacity column is exactly 0 there) while other curves
    # (utility, balanced, heat-pump profiles) may still slope across them
    if cp and draw(st.booleans()):
        for i in draw(st.lists(st.integers(1, n - 1), min_size=1, max_size=3, unique=True)):
            for k in cp:
                cp[k][i] = 0.0
    return {"T": T, "cols": cols, "cp": cp}


ELEM = st.one_of(
    st.tuples(st.just("mid"), st.floats(0, 1), st.sampled_from([0.5, 0.25, 0.1, 0.9, 0.37, 0.731, 0.02, 0.98])),
    st.tuples(st.just("mid"), st.floats(0, 1), st.floats(0.01, 0.99)),
    st.tuples(st.just("top"), st.sampled_from([0.5, 1.0, 7.25, 100.0, 0.001]), st.just(0.0)),
    st.tuples(st.just("bottom"), st.sampled_from([0.5, 1.0, 7.25, 100.0, 0.001]), st.just(0.0)),
    st.tuples(st.just("near"), st.floats(0, 1), st.sampled_from([TOL_IN, -TOL_IN, 1e-7, -1e-7])),
    st.tuples(st.just("existing"), st.floats(0, 1), st.just(0.0)),
    st.tuples(st.just("dup"), st.floats(0, 1), st.sampled_from([0.0, TOL_IN])),
)


def resolve(rows, elems):
    """Turn abstract elements into concrete temperatures against the current row set."""
    ts, kinds, bases = [], [], []

    def far(t):
        return all(abs(t - r) >= FAR for r in rows) and all(abs(t - x) >= FAR or abs(t - x) <= TOL_IN for x in ts)

    for kind, a, b in elems:
        if kind == "mid" and len(rows) >= 2:
            i = min(int(a * (len(rows) - 1)), len(rows) - 2)
            hi, lo = rows[i], rows[i + 1]
            t = round(lo + b * (hi - lo), 5)
            if far(t) and lo < t < hi:
                if any(lo < x < hi for x in ts):
                    kinds.append("several-per-interval")
                ts.append(t)
                bases.append(t)
                kinds.append("mid-offcentre" if abs(b - 0.5) > 1e-9 else "mid-centre")
        elif kind == "top":
            t = round(max(rows + ts) + a, 6)
            if far(t):
                ts.append(t)
                bases.append(t)
                kinds.append("above-top")
        elif kind == "bottom":
            t = round(min(rows + ts) - a, 6)
            if far(t):
                ts.append(t)
                bases.append(t)
                kinds.append("below-bottom")
        elif kind == "near":
            r = rows[min(int(a * len(rows)), len(rows) - 1)]
            ts.append(r + b)
            kinds.append("within-tolerance-of-row")
        elif kind == "existing":
            ts.append(rows[min(int(a * len(rows)), len(rows) - 1)])
            kinds.append("existing-row")
        elif kind == "dup" and bases:
            # duplicates hang off a base value only (never off another duplicate / near value), so every pair of
            # requested values stays either within 4e-7 K or >= 1e-3 K apart
            ts.append(bases[min(int(a * len(bases)), len(bases) - 1)] + b)
            kinds.append("duplicate-in-request")
    return ts, kinds


def machine(col, tier):
    class InsertionMachine(LoggedMachine):
        @initialize(init=initial_table())
        def setup(self, init):
            self.init = init
            self.it = Interp(init)

        @rule(elems=st.lists(ELEM, min_size=0, max_size=6), order=st.randoms(use_true_random=False), form=st.sampled_from(["list", "list", "array"]))
        def insert_list(self, elems, order, form="list"):
            if self.dead or self.init is None:
                return
            ts, kinds = resolve(self.it.rows, elems)
            idx = list(range(len(ts)))
            order.shuffle(idx)
            ts = [ts[i] for i in idx]
            if ts != sorted(ts, reverse=True) and len(ts) > 1:
                kinds.append("unsorted-request")
            op = {"op": "insert", "T": ts, "scalar": False, "kinds": sorted(set(kinds + (["request-as-array"] if form == "array" else []))), "form": form}
            self.record(op, self.it.step(op))

        @rule(elem=ELEM)
        def insert_scalar(self, elem):
            if self.dead or self.init is None:
                return
            ts, kinds = resolve(self.it.rows, [elem])
            if len(ts) != 1:
                return
            op = {"op": "insert", "T": ts, "scalar": True, "kinds": sorted(set(kinds + ["scalar-request"]))}
            self.record(op, self.it.step(op))

        @rule(form=st.sampled_from(["list", "array", "own-column"]))
        def reinsert_all_rows(self, form):
            if self.dead or self.init is None:
                return
            op = {"op": "insert", "T": list(self.it.rows), "scalar": False, "kinds": ["reinsert-all", "request-as-" + form], "form": form}
            self.record(op, self.it.step(op))

        def finalize(self, out):
            finalize_history(out, self.init, self.ops)

    InsertionMachine.col = col
    return InsertionMachine


@st.composite
def history_strategy(draw, tier="quick"):
    """The same histories as the state machine, as one plain strategy (used by the coverage-guided supplement)."""
    init = draw(initial_table())
    rows = list(init["T"])
    ops = []
    for _ in range(draw(st.integers(1, 8))):
        scalar = draw(st.integers(0, 4)) == 0
        elems = [draw(ELEM)] if scalar else draw(st.lists(ELEM, min_size=0, max_size=6))
        ts, kinds = resolve(rows, elems)
        if scalar and len(ts) != 1:
            continue
        if not scalar and len(ts) > 1 and draw(st.booleans()):
            ts = ts[::-1]
            kinds.append("unsorted-request")
        ops.append({"op": "insert", "T": ts, "scalar": scalar, "kinds": sorted(set(kinds))})
        for t in ts:
            if all(abs(t - r) > 1e-6 for r in rows):
                rows.append(t)
        rows.sort(reverse=True)
    return {"init": init, "ops": ops}


FUZZ = {"machine": history_strategy}

PARTS = [
    Part(
        "machine",
        evaluate,
        {"quick": 1500, "thorough": 40000},
        machine=machine,
        steps={"quick": 12, "thorough": 30},
        min_nontrivial={"quick": 300, "thorough": 8000},
    )
]
MIN_SHARE = {"machine": {"above-top": 0.1, "below-bottom": 0.1, "several-per-interval": 0.05, "within-tolerance-of-row": 0.1, "mid-offcentre": 0.3, "unsorted-request": 0.1}}
