"""C17  Curve simplification stays within its tolerance."""
from __future__ import annotations

import math

from hypothesis import strategies as st
from ..core.sut import hyp_target as target

from ..core.sut import call_sut
from ..core.types import Outcome, Part

PID = "C17"
RULE = (
    "part clean: composite-curve polylines (T strictly descending, 3-120 rows, thorough -500; enthalpy monotone with flat ends, interior "
    "plateaus, collinear runs, gentle curvature sampled finely, repeated enthalpies; a share non-monotone) given to clean_composite_curve; "
    "oracle: kept points are a subsequence, cover the whole non-flat extent, and every dropped point of that extent lies within 1e-6 "
    "(Euclidean) of the kept polyline. part linearise: temperature-enthalpy profiles [h, T] (2-120 points, thorough -500; hot: both "
    "decreasing, cold: both increasing; kinks, plateaus, fine sampling with curvature) x deviation tolerance in [1e-3, 10] given to "
    "get_piecewise_data_points; oracle: both end points kept, original order, every original point within the tolerance of the result "
    "polyline, one-sided bound (hot: result - original <= tolerance/10 in T at equal h; cold: >= -tolerance/10). non-trivial = at least "
    "one interior point dropped and one kept; distinct by canonical JSON."
)
ASSUMPTIONS = [
    "clean: distinct rows >= 1e-3 K apart (exact repeats of a row allowed), enthalpy steps are 0 or >= 0.05 (nothing inside the 1e-6 tolerance band except exact repeats); class small-span: enthalpy steps 0.0075-0.3, points either on their straight piece up to 6-dp rounding or >= 1e-5 K off it",
    "linearise: the one-sided bound is evaluated where enthalpy is strictly monotone (no vertical steps), at the abscissae of both polylines",
    "distances are Euclidean in the (h, T) plane as used by the routine itself (perpendicular distance of Ramer-Douglas-Peucker)",
]


# ----------------------------------------------------------------------------- geometry (reference)
def seg_dist(p, a, b):
    ax, ay = a
    bx, by = b
    px, py = p
    dx, dy = bx - ax, by - ay
    L2 = dx * dx + dy * dy
    if L2 == 0:
        return math.hypot(px - ax, py - ay)
    t = max(0.0, min(1.0, ((px - ax) * dx + (py - ay) * dy) / L2))
    return math.hypot(px - (ax + t * dx), py - (ay + t * dy))


def poly_dist(p, poly):
    return min(seg_dist(p, poly[i], poly[i + 1]) for i in range(len(poly) - 1)) if len(poly) > 1 else math.hypot(p[0] - poly[0][0], p[1] - poly[0][1])


def interp_y(x, poly):
    """Linear interpolation on a polyline whose x is strictly monotone (either direction)."""
    pts = poly if poly[0][0] <= poly[-1][0] else poly[::-1]
    if x <= pts[0][0]:
        return pts[0][1]
    if x >= pts[-1][0]:
        return pts[-1][1]
    for i in range(len(pts) - 1):
        if pts[i][0] <= x <= pts[i + 1][0]:
            if pts[i + 1][0] == pts[i][0]:
                return pts[i][1]
            w = (x - pts[i][0]) / (pts[i + 1][0] - pts[i][0])
            return pts[i][1] + w * (pts[i + 1][1] - pts[i][1])
    raise AssertionError


def ref_rdp_count(curve, eps):
    """Number of points an exact Ramer-Douglas-Peucker pass keeps (reference, used for classification only)."""
    n = len(curve)
    keep = [False] * n
    keep[0] = keep[-1] = True
    stack = [(0, n - 1)]
    while stack:
        s, e = stack.pop()
        ax, ay = curve[s]
        bx, by = curve[e]
        L = math.hypot(bx - ax, by - ay)
        if L == 0:
            continue
        dmax, idx = 0.0, s
        for i in range(s + 1, e):
            d = abs((bx - ax) * (curve[i][1] - ay) - (by - ay) * (curve[i][0] - ax)) / L
            if d > dmax:
                dmax, idx = d, i
        if dmax > eps:
            keep[idx] = True
            stack.append((s, idx))
            stack.append((idx, e))
    return sum(keep)


# ----------------------------------------------------------------------------- part clean
def drift_possible(ext) -> bool:
    """Input-only predicate for finding C17-F1: a run of >= 2 consecutive interior points, each within 1e-6 (in T, at its own
    enthalpy) of the chord through its two ORIGINAL neighbours, while the run is not straight within 1e-6 between the
    points that bracket it.  Only there can neighbour-by-neighbour removal drift away from the original curve."""
    n = len(ext)

    def local(i):
        (x1, y1), (x2, y2), (x3, y3) = ext[i - 1], ext[i], ext[i + 1]
        if x1 == x2 or x2 == x3 or x1 == x3:
            return False  # vertical steps / repeated rows are not the gentle-curvature mechanism of this finding
        return abs(y2 - (y1 + (y3 - y1) * (x2 - x1) / (x3 - x1))) <= 3e-6  # generous: the rule's reference chord may start at an earlier kept point

    i = 1
    while i < n - 1:
        if local(i):
            j = i
            while j + 1 < n - 1 and local(j + 1):
                j += 1
            if j > i:
                a, b = ext[i - 1], ext[j + 1]
                if max(seg_dist(ext[k], a, b) for k in range(i, j + 1)) > 1e-6:
                    return True
            i = j + 1
        else:
            i += 1
    return False


def eval_clean(case) -> Outcome:
    from OpenPinch.utils.miscellaneous import clean_composite_curve

    out = Outcome()
    T, H = case["T"], case["H"]
    n = len(T)
    if "repeats" in case.get("shape", ""):
        out.labels.add("repeated-points")
    if case.get("shape") == "small-span":
        out.labels.add("small-span" + ("+lifted-point" if case.get("lifted") else ""))
    ok, res = call_sut(clean_composite_curve, list(T), list(H))
    if not ok:
        out.fail("C17.sut_exception:" + res, f"clean_composite_curve raised {res}: {call_sut.last_message}")
        return out
    ky, kx = [float(v) for v in res[0]], [float(v) for v in res[1]]
    if any(not math.isfinite(v) for v in ky + kx):
        out.fail("C17.clean_non_finite", f"cleaned curve holds a value that is not a finite number: {list(zip(kx, ky))[:6]}")
        return out
    flat = max(H) - min(H) < 1e-6
    if flat:
        out.labels.add("flat-curve")
        if len(kx) > 0 and max(kx) - min(kx) > 1e-6:
            out.fail("C17.clean_flat", f"flat curve returned varying enthalpies {kx}")
        return out
    start = next(i for i in range(n) if abs(H[i] - H[0]) > 1e-6) - 1
    end = n - next(i for i in range(n) if abs(H[n - 1 - i] - H[-1]) > 1e-6)
    ext = list(zip(H[start : end + 1], T[start : end + 1]))
    kept = list(zip(kx, ky))
    if start > 0 or end < n - 1:
        out.labels.add("flat-ends-trimmed")
    if len(kept) < 2:
        out.fail("C17.clean_extent", f"non-flat curve ({len(ext)} points in its extent) reduced to {len(kept)} point(s)")
        return out
    # subsequence of the original
    j = 0
    for p in kept:
        while j < len(ext) and not (abs(ext[j][0] - p[0]) <= 1e-9 and abs(ext[j][1] - p[1]) <= 1e-9):
            j += 1
        if j == len(ext):
            out.fail("C17.clean_subsequence", f"kept point {p} is not a point of the original extent in order")
            return out
        j += 1
    # the whole non-flat extent survives: first / last kept enthalpy = extent ends
    if abs(kept[0][0] - ext[0][0]) > 1e-6 or abs(kept[-1][0] - ext[-1][0]) > 1e-6:
        out.fail("C17.clean_extent", f"kept curve spans enthalpy {kept[0][0]}..{kept[-1][0]} but the non-flat extent is {ext[0][0]}..{ext[-1][0]}")
    worst, wp = 0.0, None
    for p in ext:
        d = poly_dist(p, kept)
        if d > worst:
            worst, wp = d, p
    target(worst, label="clean-deviation")
    if drift_possible(ext):
        out.labels.add("locally-collinear-run-with-curvature")
        out.rc.add("locally-collinear-run-with-curvature")
    dropped = len(ext) - len(kept)
    if dropped > 0:
        out.labels.add("points-dropped")
    out.nontrivial = dropped > 0 and len(kept) > 2
    if worst > 2e-6:
        out.fail("C17.clean_deviation", f"dropped point (H={wp[0]}, T={wp[1]}) lies {worst:.3g} from the kept polyline ({len(ext)} -> {len(kept)} points)")
    return out


@st.composite
def small_span_curve(draw):
    """Enthalpy in a large unit (MW, GJ/h): steps of 0.01-0.3 so that the span between a kept point and the next one is
    below 1, straight pieces with clear kinks between them, and isolated interior points lifted off their piece by
    1e-5..1e-4 K - ten to a hundred times the 1e-6 tolerance, so they must survive.  Every other point is on its piece
    up to the 6-dp rounding (5e-7), i.e. inside the tolerance.  Neighbouring steps differ by at most a factor 2 and lifted
    points are never adjacent, which keeps neighbour-by-neighbour drift (finding C17-F1) out of this class."""
    npieces = draw(st.integers(1, 3))
    base = draw(st.sampled_from([0.01, 0.02, 0.05, 0.1, 0.2]))
    slopes = draw(st.permutations([0.2, 0.35, 0.5, 0.75, 1.0]))[:npieces]
    h = float(draw(st.sampled_from([1.0, 2.5, 10.0, 40.0])))
    t = float(draw(st.integers(100, 400)))
    H, T, lifted = [round(h, 6)], [round(t, 6)], []
    for sl in slopes:
        m = draw(st.integers(3, 8))  # points after the piece's first anchor; the last one is the next anchor
        h0, t0 = h, t
        prev_lift = False
        for j in range(1, m + 1):
            step = base * draw(st.sampled_from([1.0, 1.0, 1.5, 0.75]))
            h = h - step
            on_line = t0 - sl * (h0 - h)
            d = 0.0
            if j < m and not prev_lift and draw(st.integers(0, 2)) == 0:
                d = draw(st.sampled_from([1e-5, 2e-5, 5e-5, 1e-4])) * draw(st.sampled_from([1.0, -1.0]))
            prev_lift = d != 0.0
            H.append(round(h, 6))
            T.append(round(on_line + d, 6))
            if d:
                lifted.append(len(H) - 1)
        t = t0 - sl * (h0 - h)  # the next piece starts on this one's line
        h = H[-1]
    return {"T": T, "H": H, "shape": "small-span", "lifted": lifted}


@st.composite
def composite_curve(draw, tier):
    nmax = 120 if tier == "quick" else 500
    shape = draw(st.sampled_from(["kinks", "kinks", "bow", "bow-fine", "steps", "nonmono", "small-span", "small-span"]))
    if shape == "small-span":
        return draw(small_span_curve())
    n = draw(st.integers(3, 40 if shape != "bow-fine" else nmax))
    top = float(draw(st.integers(100, 400)))
    gaps = draw(st.lists(st.sampled_from([0.5, 1.0, 1.0, 2.0, 5.0, 0.01, 10.0]), min_size=n - 1, max_size=n - 1)) if shape != "bow-fine" else [draw(st.sampled_from([0.25, 0.5, 1.0]))] * (n - 1)
    T = [top]
    for g in gaps:
        T.append(round(T[-1] - g, 6))
    lead = draw(st.integers(0, 3))
    trail = draw(st.integers(0, 3))
    H = []
    if shape in ("kinks", "steps", "nonmono"):
        slopes = draw(st.lists(st.sampled_from([0.0, 0.0, 1.0, 2.0, 2.0, 5.0, 0.1, 12.5]), min_size=1, max_size=5))
        # a quarter of the curves sit at plant-scale enthalpies: end segments are then tiny relative to the values
        h = float(draw(st.one_of(st.integers(0, 5000), st.integers(0, 5000), st.integers(0, 5000), st.sampled_from([200000, 1000000, 5000000]))))
        H = [h]
        per = max(1, (n - 1) // len(slopes))
        for i in range(1, n):
            sl = slopes[min((i - 1) // per, len(slopes) - 1)]
            if shape == "steps" and draw(st.integers(0, 4)) == 0:
                sl = 0.0
            sgn = -1.0
            if shape == "nonmono" and draw(st.integers(0, 3)) == 0:
                sgn = 1.0
            step = sl * (T[i - 1] - T[i])
            if step < 0.05:
                step = 0.0  # nothing inside the tolerance band: a step is either absent or clearly present
            h = h + sgn * step
            H.append(round(h, 6))
    else:
        total = float(draw(st.sampled_from([10.0, 100.0, 1000.0, 5000.0])))
        bow = draw(st.sampled_from([1e-3, 1e-2, 0.1, 1.0, 10.0]))
        span = T[0] - T[-1]
        for t in T:
            s = (T[0] - t) / span
            H.append(round(total * (1 - s) + bow * math.sin(math.pi * s), 6))
    for i in range(min(lead, n - 2)):
        H[i] = H[min(lead, n - 2)]
    for i in range(min(trail, n - 2)):
        H[n - 1 - i] = H[n - 1 - min(trail, n - 2)]
    # a vertical run whose lower end is a repeated row (seen in pipeline tables around isothermal streams)
    if shape in ("kinks", "steps") and n >= 5 and draw(st.integers(0, 2)) == 0:
        k = draw(st.integers(lead + 1, n - trail - 2)) if n - trail - 2 >= lead + 1 else None
        if k is not None and H[k] != H[k + 1]:
            H[k] = H[k - 1]
            T.insert(k, T[k])
            H.insert(k, H[k])
            shape += "+corner-repeats"
    # repeated points: table rows that coincide after the pipeline's 4-dp rounding
    if shape in ("kinks", "steps") and draw(st.booleans()):
        for _ in range(draw(st.integers(1, 3))):
            k = draw(st.integers(0, len(T) - 1))
            T.insert(k, T[k])
            H.insert(k, H[k])
        shape += "+repeats"
    return {"T": T, "H": H, "shape": shape}


# ----------------------------------------------------------------------------- part linearise
def eval_lin(case) -> Outcome:
    from OpenPinch.utils.stream_linearisation import get_piecewise_data_points

    out = Outcome()
    curve = [tuple(p) for p in case["curve"]]
    eps, hot = case["eps"], case["hot"]
    n = len(curve)
    out.labels.add("hot" if hot else "cold")
    strict_h = all((a[0] > b[0]) if hot else (a[0] < b[0]) for a, b in zip(curve, curve[1:]))
    if not strict_h:
        out.labels.add("vertical-step-or-repeat")
    nref = ref_rdp_count(curve, eps)
    out.labels.add("rdp-keeps<=10" if nref <= 10 else "rdp-keeps>10")
    out.rc.add("rdp-keeps<=10" if nref <= 10 else "rdp-keeps>10")
    if not hot:
        out.rc.add("cold-orientation")
    ok, res = call_sut(get_piecewise_data_points, [list(p) for p in curve], hot, eps)
    if not ok:
        out.fail("C17.sut_exception:" + res, f"get_piecewise_data_points raised {res}: {call_sut.last_message}")
        return out
    if case.get("ints") and all(float(v).is_integer() for p in curve for v in p):
        # the same polyline spelled with integers (2 instead of 2.0) is the same polyline: every clause holds for it as well, and
        # beyond that the routine must return the same points - this also decides the >10-breakpoint branch, whose clause
        # violations on the unchanged tree (finding C17-F3) cannot be told apart by magnitude
        out.labels.add("integer-typed-samples")
        oki, resi = call_sut(get_piecewise_data_points, [[int(v) for v in p] for p in curve], hot, eps)
        if not oki:
            out.fail("C17.sut_exception:" + resi, f"get_piecewise_data_points raised {resi} on integer-typed samples: {call_sut.last_message}")
            return out
        a = [(float(q[0]), float(q[1])) for q in res]
        b = [(float(q[0]), float(q[1])) for q in resi]
        if len(a) != len(b) or any(not (abs(x[0] - y[0]) <= 1e-6 * (1 + abs(x[0])) and abs(x[1] - y[1]) <= 1e-6 * (1 + abs(x[1]))) for x, y in zip(a, b)):
            worst = max((max(abs(x[0] - y[0]), abs(x[1] - y[1])) for x, y in zip(a, b)), default=float("nan"))
            out.fail("C17.lin_int_float", f"{n}-point profile, tolerance {eps}: integer-typed samples give {len(b)} points, the same numbers as floats give {len(a)}; largest coordinate difference {worst!r}")
    pts = [(float(p[0]), float(p[1])) for p in res]
    if any(not (math.isfinite(p[0]) and math.isfinite(p[1])) for p in pts):
        out.fail("C17.lin_non_finite", f"simplified profile holds a value that is not a finite number: {pts[:6]}")
        return out
    if len(pts) < 2:
        out.fail("C17.lin_ends", f"{n}-point profile reduced to {len(pts)} point(s)")
        return out
    if any(abs(a - b) > 1e-9 * (1 + abs(b)) for a, b in zip(pts[0] + pts[-1], curve[0] + curve[-1])):
        out.fail("C17.lin_ends", f"end points {pts[0]}, {pts[-1]} differ from the original {curve[0]}, {curve[-1]}")
    okorder = all((a[0] >= b[0] - 1e-9) if hot else (a[0] <= b[0] + 1e-9) for a, b in zip(pts, pts[1:]))
    if not okorder:
        out.fail("C17.lin_order", f"result enthalpies {[p[0] for p in pts]} are not in the original ({'decreasing' if hot else 'increasing'}) order")
    out.nontrivial = 2 < len(pts) < n
    if len(pts) < n:
        out.labels.add("points-dropped")
    worst, wp = 0.0, None
    for p in curve:
        d = poly_dist(p, pts)
        if d > worst:
            worst, wp = d, p
    target(worst / eps, label="lin-deviation-ratio")
    if worst > eps * (1 + 1e-6) + 1e-9:
        out.fail("C17.lin_deviation", f"original point {wp} lies {worst:.6g} from the simplified polyline but the requested maximum deviation is {eps} ({n} -> {len(pts)} points)")
    if strict_h and okorder and all(abs(a[0] - b[0]) > 1e-12 for a, b in zip(pts, pts[1:])):
        lim = eps / 10 + 1e-9 * (1 + max(abs(p[1]) for p in curve))
        bad = None
        for h in [p[0] for p in curve] + [p[0] for p in pts]:
            d = interp_y(h, pts) - interp_y(h, curve)
            if (hot and d > lim) or ((not hot) and d < -lim):
                if bad is None or abs(d) > abs(bad[1]):
                    bad = (h, d)
        if bad:
            out.fail(
                "C17.lin_one_sided",
                f"{'hot' if hot else 'cold'} profile: simplified T is {bad[1]:+.6g} K {'above' if hot else 'below'} the original at h={bad[0]} (allowed {eps / 10:.6g}); {n} -> {len(pts)} points",
            )
    return out


@st.composite
def th_profile(draw, tier):
    nmax = 120 if tier == "quick" else 500
    hot = draw(st.booleans())
    eps = draw(st.sampled_from([1e-3, 0.01, 0.1, 0.1, 0.5, 1.0, 2.0, 10.0]))
    shape = draw(st.sampled_from(["kinks", "curved", "curved-fine", "plateau", "steps"]))
    n = draw(st.integers(2, 30 if shape != "curved-fine" else nmax))
    h0 = float(draw(st.integers(0, 3000)))
    t0 = float(draw(st.integers(0, 300)))
    pts = [(h0, t0)]
    if shape in ("curved", "curved-fine"):
        H = float(draw(st.sampled_from([50.0, 500.0, 5000.0])))
        dT = float(draw(st.sampled_from([5.0, 40.0, 150.0])))
        p = draw(st.sampled_from([0.5, 0.8, 1.0, 1.3, 2.0]))
        for i in range(1, n):
            s = i / (n - 1)
            pts.append((round(h0 + H * s, 6), round(t0 + dT * s**p, 6)))
    else:
        for i in range(1, n):
            dh = draw(st.sampled_from([1.0, 5.0, 20.0, 100.0, 100.0])) if not (shape == "steps" and draw(st.integers(0, 5)) == 0) else 0.0
            slope = draw(st.sampled_from([0.0, 0.05, 0.05, 0.2, 0.2, 1.0])) if shape != "plateau" or draw(st.booleans()) else 0.0
            dt = slope * dh if dh > 0 else draw(st.sampled_from([0.5, 2.0]))
            pts.append((round(pts[-1][0] + dh, 6), round(pts[-1][1] + dt, 6)))
    ints = False
    if shape in ("curved", "curved-fine") and draw(st.booleans()):
        # whole-number samples (a tabulated profile): strongly curved so that many breakpoints survive
        ints = True
        n = max(n, 25)
        H = n * int(draw(st.sampled_from([10, 40, 100])))
        dT = int(draw(st.sampled_from([400, 900, 2000])))
        p = draw(st.sampled_from([0.5, 2.0, 3.0]))
        pts = [(float(int(h0) + round(H * i / (n - 1))), float(int(t0) + round(dT * (i / (n - 1)) ** p))) for i in range(n)]
        pts = [q for k, q in enumerate(pts) if k == 0 or q[0] > pts[k - 1][0]]
        eps = draw(st.sampled_from([0.25, 0.5, 1.0]))
    if hot:
        pts = pts[::-1]  # supply -> target: enthalpy and temperature both fall
    return {"curve": [list(p) for p in pts], "eps": eps, "hot": hot, "shape": shape, "ints": ints}


PARTS = [
    Part("clean", eval_clean, {"quick": 3000, "thorough": 100000}, strategy=lambda tier: composite_curve(tier), min_nontrivial={"quick": 460, "thorough": 20000}),
    Part("linearise", eval_lin, {"quick": 400, "thorough": 10000}, strategy=lambda tier: th_profile(tier), min_nontrivial={"quick": 50, "thorough": 1500}),
]
MIN_SHARE = {"linearise": {"hot": 0.25, "cold": 0.15, "rdp-keeps>10": 0.05}}

FUZZ = {"clean": None}  # parts also driven by the coverage-guided supplement (thorough tier)
