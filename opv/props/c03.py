"""C03  Multi-utility targeting allocates exactly the target duty."""
from __future__ import annotations

from fractions import Fraction as Fr

from hypothesis import strategies as st

from ..core.types import Outcome, Part
from ..gen import problems as G
from ..gen import service as S
from ..ref import cascade as C
from . import _pipeline as P

PID = "C03"
RULE = (
    "stream sets (1-8, thorough 1-12; incl. multi-pocket patterns, isothermal extreme streams) crossed with utility sets: none (defaults only), "
    "1-3 hot / cold levels and a Both level inside or outside the process range, isothermal and with glide, inactive entries; oracle per "
    "Direct-Integration target: sum of hot duties = exact Qh, sum of cold duties = exact Qc, duties >= 0, the levels duties are assigned on are the supplied ones (isothermal entries opened by the phase-change span on their own side, shifted by the utility contribution); a utility with duty has its shifted "
    "supply end beyond the exact pinch and carries no more than the exact pocket-free GCC at that level; the Total-Process target lists, "
    "position by position and name by name, the sum of the child zones' duties. non-trivial = some zone needs utility on a side where >= 2 "
    "levels were supplied, or a default utility had to be added; distinct by canonical JSON."
)
ASSUMPTIONS = [
    "temperatures on the 1e-3 K grid; positive duties; label-safe zones; tolerance 1e-6 x total duty of the zone",
    "reachability is a necessary condition only (supply end beyond the pinch; duty <= pocket-free GCC at the supply level); C04 decides the full profile",
]


def eval_case(case) -> Outcome:
    out = Outcome()
    an = P.Analysis(case, out, "C03")
    if not an.ok:
        return out
    P.classify_site(out, an)
    P.root_causes(out, an)
    per_zone = {}
    for path, zone, c in an.zones:
        t = an.target(zone, S.DI)
        if t is None:
            continue
        eps = P.eps_of(c)
        where = "/".join(path) or "<site>"
        hu, cu = P.ut_rows(t, "hot"), P.ut_rows(t, "cold")
        per_zone[path] = (hu, cu)
        # the levels the duties are assigned on are the supplied ones (an isothermal entry opened by the documented
        # phase-change span on its own side), shifted by the utility's own contribution towards the process
        exp_u = P.expanded_utilities(case)
        switched_off = {x["name"] for x in (case.get("utilities") or []) if not x.get("active", True)} - {e["name"] for e in exp_u}
        for side, rows in (("hot", hu), ("cold", cu)):
            for u in rows:
                if u["name"] in switched_off:
                    out.fail("C03.inactive_utility_listed", f"{where}: {side} utility {u['name']} was supplied with active = false but is part of the ladder (duty {u['q']!r})")
                cands = [e for e in exp_u if e["name"] == u["name"] and e["type"] in (("Hot", "Both") if side == "hot" else ("Cold", "Both"))]
                if len(cands) != 1 or sum(1 for e in exp_u if e["name"] == u["name"]) != 1:
                    continue
                e = cands[0]
                lo, hi = min(u["t_supply"], u["t_target"]), max(u["t_supply"], u["t_target"])
                want_s = float(e["hi"] - e["dt"]) if side == "hot" else float(e["lo"] + e["dt"])
                if abs(lo - float(e["lo"])) > 1e-9 or abs(hi - float(e["hi"])) > 1e-9 or abs(u["ts"] - want_s) > 1e-9:
                    out.fail("C03.utility_levels", f"{where}: {side} utility {u['name']} is used on [{lo!r}, {hi!r}] (shifted supply {u['ts']!r}) but was supplied as [{float(e['lo'])!r}, {float(e['hi'])!r}] with contribution {float(e['dt'])!r}")
        sh, sc = sum(u["q"] for u in hu), sum(u["q"] for u in cu)
        if abs(sh - float(c.Qh)) > eps:
            out.fail("C03.hu_sum", f"{where}: hot utilities {[(u['name'], u['q']) for u in hu]} sum {sh!r} but Qh={float(c.Qh)!r}")
        if abs(sc - float(c.Qc)) > eps:
            out.fail("C03.cu_sum", f"{where}: cold utilities {[(u['name'], u['q']) for u in cu]} sum {sc!r} but Qc={float(c.Qc)!r}")
        for u in hu + cu:
            if u["q"] < -eps:
                out.fail("C03.nonneg", f"{where}: utility {u['name']} duty {u['q']!r} < 0")
        # reachability against the exact pocket-free envelope
        if c.T and len(c.T) >= 2 and min(c.R) == 0:
            Te, Ne = C.envelope(c.T, c.R)
            zeros = [tt for tt, r in zip(c.T, c.R) if r == 0]
            hot_pinch, cold_pinch = max(zeros), min(zeros)
            for u in hu:
                if u["q"] > eps:
                    ts = C.fr(round(u["ts"], 6))
                    if ts <= hot_pinch:
                        out.fail("C03.reach_hot", f"{where}: hot utility {u['name']} carries {u['q']!r} but its shifted supply {float(ts)} is not above the hot pinch {float(hot_pinch)}")
                    else:
                        cap = float(C.interp(Te, Ne, ts))
                        if u["q"] > cap + eps:
                            out.fail("C03.reach_hot", f"{where}: hot utility {u['name']} carries {u['q']!r} > pocket-free GCC {cap!r} at its shifted supply {float(ts)}")
            for u in cu:
                if u["q"] > eps:
                    ts = C.fr(round(u["ts"], 6))
                    if ts >= cold_pinch:
                        out.fail("C03.reach_cold", f"{where}: cold utility {u['name']} carries {u['q']!r} but its shifted supply {float(ts)} is not below the cold pinch {float(cold_pinch)}")
                    else:
                        cap = float(C.interp(Te, Ne, ts))
                        if u["q"] > cap + eps:
                            out.fail("C03.reach_cold", f"{where}: cold utility {u['name']} carries {u['q']!r} > pocket-free GCC {cap!r} at its shifted supply {float(ts)}")
            # the whole utility profile must stay under the pocket-free GCC (a utility cannot serve heat at
            # temperatures its own profile does not reach) - same reference curve as C04, rebuilt from the reported duties
            from ..ref import utility as U

            fh, fc = U.frac_rows(hu), U.frac_rows(cu)
            pts = set(Te)
            for r in fh + fc:
                pts.add(r["tsf"])
                pts.add(r["ttf"])
            tolp = eps + 1e-7 * float(max(c.Qh, c.Qc))
            worst = None
            for T in pts:
                over = float(U.utility_gcc(fh, fc, T) - C.interp(Te, Ne, T))
                if over > tolp and (worst is None or over > worst[0]):
                    worst = (over, T)
            if worst:
                out.fail("C03.profile_reach", f"{where}: the utilities would have to place {worst[0]:.6g} more heat at T*={float(worst[1])} than the process can exchange there (utility profile above the pocket-free GCC)")
            if path == ():
                ncl = C.closures(c.T, c.R)
                if any(x > hot_pinch for x in ncl):
                    out.labels.add("pocket-closure-above")
                if any(x < cold_pinch for x in ncl):
                    out.labels.add("pocket-closure-below")
        n_hot_lv = sum(1 for u in hu if u["name"] != "HU")
        n_cold_lv = sum(1 for u in cu if u["name"] != "CU")
        if (c.Qh > 0 and n_hot_lv >= 2) or (c.Qc > 0 and n_cold_lv >= 2):
            out.nontrivial = True
        if (c.Qh > 0 and any(u["name"] == "HU" for u in hu) and n_hot_lv >= 1) or (c.Qc > 0 and any(u["name"] == "CU" for u in cu) and n_cold_lv >= 1):
            out.nontrivial = True
            out.labels.add("default-added-next-to-user-utility")
    # Total-Process target = utility-by-utility sum of the child zones
    for path, zone, c in an.zones:
        tz = an.target(zone, S.TZ)
        if tz is None:
            continue
        where = "/".join(path) or "<site>"
        eps = P.eps_of(c)
        kids = [(p, z) for p, z, _ in an.zones if len(p) == len(path) + 1 and p[: len(path)] == path and an.target(z, S.DI) is not None]
        for side in ("hot", "cold"):
            rows = P.ut_rows(tz, side)
            for j, u in enumerate(rows):
                tot = 0.0
                for p, z in kids:
                    krows = per_zone[p][0 if side == "hot" else 1]
                    if j >= len(krows) or krows[j]["name"] != u["name"]:
                        out.fail("C03.tz_names", f"{where}: Total-Process {side} utility #{j} is {u['name']} but zone {'/'.join(p)} lists {[k['name'] for k in krows]}")
                        break
                    tot += krows[j]["q"]
                else:
                    if abs(tot - u["q"]) > eps:
                        out.fail("C03.tz_by_utility", f"{where}: Total-Process {side} utility {u['name']}={u['q']!r} but zones sum to {tot!r}")
    return out


def strategy(tier):
    from .c04 import glide_ladder

    mx = 8 if tier == "quick" else 12
    return G.with_options(st.one_of(
        G.gcc_problem(max_rows=12),
        G.gcc_problem(max_rows=12, isothermal_utils=True),
        glide_ladder(tier),
        G.problem(min_streams=3, max_streams=mx, shape="mixed", max_hot=3, max_cold=3),
        G.problem(min_streams=4, max_streams=mx, shape="mixed", max_hot=3, max_cold=3, isothermal_utils=True),
        G.problem(min_streams=2, max_streams=mx, shape="mixed", multi_zone=True),
        G.problem(max_streams=mx),
        G.problem(min_streams=2, max_streams=6, shape="mixed", iso_share=0.4),
        G.problem(min_streams=2, max_streams=mx, shape="mixed", with_utilities=False),
    ))


PARTS = [Part("service", eval_case, {"quick": 1500, "thorough": 40000}, strategy=strategy, min_nontrivial={"quick": 300, "thorough": 6000})]
MIN_SHARE = {"service": {"pocket-closure-above": 0.03, "pocket-closure-below": 0.03, "no-utilities-given": 0.1, "isothermal-stream": 0.1, "hot-levels>=2": 0.1, "cold-levels>=2": 0.1}}
