"""C12  Results are invariant under equivalent descriptions of the problem (metamorphic)."""
from __future__ import annotations

import copy
import math
from fractions import Fraction as Fr

from hypothesis import strategies as st

from ..core.sut import call_sut
from ..core.types import Outcome, Part
from ..gen import problems as G
from ..gen import service as S
from ..ref import cascade as C
from . import _pipeline as P
from .c13 import cheb_poly

PID = "C12"
RULE = (
    "a problem (2-7 streams, thorough 2-10; 1-3 label-safe zones; utility ladders with explicit glides and levels >= 1 K apart on each "
    "side; latent streams written as explicit 0.01 K spans so that the description is closed under mirroring) crossed with one "
    "transformation: permutation of streams / utilities, split of a stream at an interior temperature, split into parallel branches, "
    "translation by a multiple of 0.5 K, duty scaling by 0.1 / 0.5 / 2 / 3 / 10, zone renaming, mirroring T -> -T with hot <-> cold. "
    "oracle: both twins are run; every record (DI, Total-Process, Total-Site; names mapped through the renaming) must agree in Qh, Qc, Qr, "
    "every utility duty by name and the pinch temperatures after applying the transformation's known effect; composite and grand "
    "composite graph curves must coincide (Chebyshev, display rounding) for the transformations that leave them unchanged. non-trivial = "
    "the twin differs textually from the original and the site problem is pinched or threshold with recovery; distinct by canonical JSON."
)
ASSUMPTIONS = [
    "pairs in which the exact residual or an exact enthalpy step of either twin is non-zero but below 1e-4 x total duty are skipped and counted (absolute 1e-6 tolerances may legitimately flip)",
    "tolerance 1e-6 x total duty (scaled twin: of the larger twin); pinch temperatures 1e-6 K",
    "utility levels are >= 1 K apart per side on the real and the shifted scale, so no tie decides the allocation order",
]

RENAME_POOL = ["Plant", "Old Plant", "A", "AA", "BA", "Line 1", "Extrusion Line 1", "North", "South", "Area 51"]
TRANSFORMS = ["permute", "split", "parallel", "translate", "scale", "rename", "mirror"]


def site_guard(case):
    rs = C.rstreams(case["streams"])
    c = C.cascade(rs)
    tot = c.total
    if tot == 0:
        return c, True
    thr = tot / 10000
    amb = any(0 < r < thr for r in c.R)
    return c, amb


def apply(case, tr):
    t = copy.deepcopy(case)
    kind = tr["kind"]
    eff = {"dT": 0.0, "k": 1.0, "mirror": False, "names": {}, "graphs": True}
    if kind == "permute":
        t["streams"] = [t["streams"][i] for i in tr["sperm"]]
        t["utilities"] = [t["utilities"][i] for i in tr["uperm"]]
    elif kind == "split":
        i = tr["idx"] % len(t["streams"])
        s = t["streams"][i]
        ts, tt = s["t_supply"], s["t_target"]
        tm = round(ts + tr["frac"] * (tt - ts), 3)
        if abs(tt - ts) > 0.05 and tm != ts and tm != tt and (min(ts, tt) < tm < max(ts, tt)):
            a, b = copy.deepcopy(s), copy.deepcopy(s)
            q = s["heat_flow"]
            qa = q * (ts - tm) / (ts - tt)
            a["t_target"], a["heat_flow"], a["name"] = tm, qa, s["name"] + "a"
            b["t_supply"], b["heat_flow"], b["name"] = tm, q - qa, s["name"] + "b"
            t["streams"][i : i + 1] = [a, b]
    elif kind == "parallel":
        i = tr["idx"] % len(t["streams"])
        s = t["streams"][i]
        a, b = copy.deepcopy(s), copy.deepcopy(s)
        a["heat_flow"] = s["heat_flow"] * tr["frac"]
        b["heat_flow"] = s["heat_flow"] - a["heat_flow"]
        b["name"] = s["name"] + "p"
        t["streams"][i : i + 1] = [a, b]
    elif kind == "translate":
        d = tr["dT"]
        for s in t["streams"] + t["utilities"]:
            s["t_supply"] = round(s["t_supply"] + d, 6)
            s["t_target"] = round(s["t_target"] + d, 6)
        eff["dT"] = d
        eff["graphs"] = False
    elif kind == "scale":
        k = tr["k"]
        for s in t["streams"]:
            s["heat_flow"] = s["heat_flow"] * k
        eff["k"] = k
        eff["graphs"] = False
    elif kind == "rename":
        labels = sorted({s["zone"] for s in t["streams"]})
        comps = sorted({c for l in labels for c in l.split("/")})
        m = {c: f"R{j}x" for j, c in enumerate(comps)}
        if tr.get("pool") and len(comps) <= len(RENAME_POOL):
            # new names of which some are string suffixes (not path suffixes) of others: 'Plant' / 'Old Plant', 'A' / 'AA' / 'BA'
            m = {c: RENAME_POOL[tr["pool"][j]] for j, c in enumerate(comps)}
        for s in t["streams"]:
            s["zone"] = "/".join(m[c] for c in s["zone"].split("/"))
        if t.get("zone_tree"):
            def ren(node, root=False):
                return {"name": node["name"] if root else m.get(node["name"], node["name"]), "type": node["type"], "children": [ren(c) for c in node.get("children") or []] or None}

            t["zone_tree"] = ren(t["zone_tree"], True)
            names = []

            def collect(node):
                names.append(node["name"])
                for c in node.get("children") or []:
                    collect(c)

            collect(t["zone_tree"])
            form = tr.get("form", "relative")
            for s in t["streams"]:
                comps_s = s["zone"].split("/")
                if form == "full":
                    s["zone"] = "/".join([t["zone_tree"]["name"]] + comps_s)
                elif form == "leaf" and names.count(comps_s[-1]) == 1:
                    s["zone"] = comps_s[-1]  # the bare zone name resolves to exactly one node of the tree
        eff["names"] = m
    elif kind == "mirror":
        for s in t["streams"] + t["utilities"]:
            s["t_supply"], s["t_target"] = round(-s["t_supply"], 6), round(-s["t_target"], 6)
        for u in t["utilities"]:
            u["type"] = {"Hot": "Cold", "Cold": "Hot", "Both": "Both"}[u["type"]]
        eff["mirror"] = True
        eff["graphs"] = False
    return t, eff


def rec_view(r):
    tp = r.temp_pinch
    cold, hot = S.val(tp.cold_temp), S.val(tp.hot_temp)
    if hot is None:
        hot = cold
    if cold is None:
        cold = hot
    return {
        "Qh": S.val(r.Qh),
        "Qc": S.val(r.Qc),
        "Qr": S.val(r.Qr),
        "hot": {u.name: S.val(u.heat_flow) for u in r.hot_utilities},
        "cold": {u.name: S.val(u.heat_flow) for u in r.cold_utilities},
        "hot_pinch": hot,
        "cold_pinch": cold,
        "nh": len(r.hot_utilities),
        "nc": len(r.cold_utilities),
    }


def map_name(name, m):
    zone, kind = name.rsplit("/", 1)
    return f"{m.get(zone, zone)}/{kind}"


def eval_case(case) -> Outcome:
    out = Outcome()
    base, tr = case["base"], case["transform"]
    out.labels.add("t:" + tr["kind"])
    if tr["kind"] == "rename" and case["base"].get("zone_tree"):
        out.labels.add("rename+explicit-tree:" + tr.get("form", "relative"))
    if tr["kind"] == "rename" and tr.get("pool"):
        out.labels.add("rename+string-suffix-names")
    if tr.get("zero"):
        out.labels.add("translated-onto-0.0")
    twin, eff = apply(base, tr)
    if twin == base:
        out.skip = "transformation-was-a-no-op"
        return out
    c0, amb0 = site_guard(base)
    c1, amb1 = site_guard(twin)
    if amb0 or amb1:
        out.skip = "ambiguous-zero"
        return out
    out.nontrivial = bool(c0.hot and c0.cold and c0.Qr > 0)
    P.root_causes_of_case(out, base, c0)
    if eff["mirror"]:
        # R6 lives on the cold side only: after mirroring it can hit either twin
        o2 = Outcome()
        P.root_causes_of_case(o2, twin, c1)
        out.rc |= o2.rc
    ok0, r0 = S.run_service(base, full=False)
    ok1, r1 = S.run_service(twin, full=False)
    if not ok0 or not ok1:
        if ok0 != ok1:
            out.fail("C12.one_twin_raises", f"{tr['kind']}: original {'ok' if ok0 else r0}, twin {'ok' if ok1 else r1}")
        else:
            out.skip = "both-twins-raise:" + str(r0)
        return out
    k, dT, mirror = eff["k"], eff["dT"], eff["mirror"]
    eps = float(max(c0.total, c1.total)) * 1e-6 + 1e-9
    A = {}
    for r in r0.targets:
        A.setdefault(map_name(r.name, eff["names"]), []).append(rec_view(r))
    B = {}
    for r in r1.targets:
        B.setdefault(r.name, []).append(rec_view(r))
    if sorted(A) != sorted(B):
        out.fail("C12.record_names", f"{tr['kind']}: records {sorted(A)} vs twin {sorted(B)}")
        return out
    for name in A:
        if len(A[name]) != 1 or len(B[name]) != 1:
            continue
        a, b = A[name][0], B[name][0]
        kind = name.rsplit("/", 1)[1]
        tag = {"Direct Integration": "di", "Total Process Target": "tz", "Total Site Target": "ts"}.get(kind, "other")
        exp = {"Qh": a["Qh"] * k, "Qc": a["Qc"] * k, "Qr": a["Qr"] * k}
        if mirror:
            exp["Qh"], exp["Qc"] = a["Qc"] * k, a["Qh"] * k
        for q in ("Qh", "Qc", "Qr"):
            if abs(b[q] - exp[q]) > eps:
                out.fail(f"C12.{tag}_{q}", f"{tr['kind']}: record {name}: {q}={b[q]!r} in the twin but {exp[q]!r} expected from the original ({a[q]!r})")
        # utilities by name
        ah, ac = a["hot"], a["cold"]
        if mirror:
            sw = lambda d: {{"HU": "CU", "CU": "HU"}.get(n, n): v for n, v in d.items()}
            ah, ac = sw(a["cold"]), sw(a["hot"])
        for side, da, db in (("hot", ah, b["hot"]), ("cold", ac, b["cold"])):
            if (a["nh"], a["nc"]) != ((len(a["hot"]), len(a["cold"]))) or (b["nh"], b["nc"]) != (len(b["hot"]), len(b["cold"])):
                continue  # duplicate utility names on a record: by-name comparison not possible
            for n in sorted(set(da) | set(db)):
                va, vb = da.get(n, 0.0) * k, db.get(n, 0.0)
                if abs(va - vb) > eps:
                    out.fail(f"C12.{tag}_utility_duty", f"{tr['kind']}: record {name}: {side} utility {n} carries {vb!r} in the twin but {va!r} expected")
                    break
        # pinches
        if a["hot_pinch"] is not None or b["hot_pinch"] is not None:
            if (a["hot_pinch"] is None) != (b["hot_pinch"] is None):
                out.fail(f"C12.{tag}_pinch", f"{tr['kind']}: record {name}: pinch {a['hot_pinch']!r}/{a['cold_pinch']!r} vs twin {b['hot_pinch']!r}/{b['cold_pinch']!r}")
            else:
                eh, ec = a["hot_pinch"] + dT, a["cold_pinch"] + dT
                if mirror:
                    eh, ec = -a["cold_pinch"], -a["hot_pinch"]
                if abs(b["hot_pinch"] - eh) > 1e-6 or abs(b["cold_pinch"] - ec) > 1e-6:
                    out.fail(f"C12.{tag}_pinch", f"{tr['kind']}: record {name}: twin pinches ({b['hot_pinch']!r}, {b['cold_pinch']!r}) but ({eh!r}, {ec!r}) expected")
    # graphs for the transformations that leave the curves unchanged
    if eff["graphs"] and r0.graphs and r1.graphs:
        for key, gs in r0.graphs.items():
            gb = r1.graphs.get(map_name(key, eff["names"]))
            if gb is None:
                continue
            for g in gs.graphs:
                if g.type not in ("Composite Curves", "Shifted Composite Curves", "Grand Composite Curve", "Balanced Composite Curves", "Total Site Profiles", "Site Utility Grand Composite Curve"):
                    continue
                h = next((x for x in gb.graphs if x.type == g.type), None)
                if h is None:
                    out.fail("C12.graph_missing", f"{tr['kind']}: {key} [{g.type}] missing in the twin")
                    continue
                pa = {}
                for sgm in g.segments:
                    pa.setdefault(sgm.title.rsplit(" ", 1)[0] if "Grand" in g.type else sgm.title, []).extend((p.x, p.y) for p in sgm.data_points)
                pb = {}
                for sgm in h.segments:
                    pb.setdefault(sgm.title.rsplit(" ", 1)[0] if "Grand" in g.type else sgm.title, []).extend((p.x, p.y) for p in sgm.data_points)
                for title in sorted(set(pa) | set(pb)):
                    la, lb = pa.get(title, []), pb.get(title, [])
                    if (len(la) < 2) != (len(lb) < 2):
                        out.fail("C12.graph_curve", f"{tr['kind']}: {key} [{g.type}] curve {title!r}: {len(la)} points vs {len(lb)} in the twin")
                        continue
                    if len(la) < 2:
                        continue
                    d = max(max(cheb_poly(p, lb) for p in la), max(cheb_poly(p, la) for p in lb))
                    if d > 0.021:
                        out.fail("C12.graph_curve", f"{tr['kind']}: {key} [{g.type}] curve {title!r} differs from the twin's by {d:.4g}")
    return out


# ------------------------------------------------------------------------------------- generators
@st.composite
def ladder(draw, pal):
    """Utilities with explicit glides, levels >= 1 K apart per side (real and shifted scale)."""
    us = []
    for side, n in (("Hot", draw(st.integers(0, 3))), ("Cold", draw(st.integers(0, 3))), ("Both", draw(st.integers(0, 1)))):
        for i in range(n):
            t = float(draw(st.integers(-60, 460)))
            g = draw(st.sampled_from([0.1, 0.1, 1.0, 10.0, 30.0, 60.0]))
            ts, tt = (t, round(t - g, 6)) if side != "Cold" else (t, round(t + g, 6))
            us.append({"name": f"{side[0]}U{i + 1}", "type": side, "t_supply": ts, "t_target": tt, "heat_flow": None, "dt_cont": draw(st.sampled_from([0.0, 2.5, 5.0])), "htc": 1.0, "price": draw(st.sampled_from([10.0, 40.0])), "active": True})

    def ok(side_types, end, shift):
        # the supply end a utility presents on this side: its hottest temperature as a hot utility, its coldest as a cold one
        lv = sorted(end(u["t_supply"], u["t_target"]) + shift(u) for u in us if u["type"] in side_types)
        return all(b - a >= 1.0 for a, b in zip(lv, lv[1:]))

    good = (
        ok(("Hot", "Both"), max, lambda u: 0)
        and ok(("Hot", "Both"), max, lambda u: -u["dt_cont"])
        and ok(("Cold", "Both"), min, lambda u: 0)
        and ok(("Cold", "Both"), min, lambda u: u["dt_cont"])
    )
    # also after expansion the Both level's other end must stay >= 1 K from its neighbours: use supply-based test only
    if not good:
        # keep one utility per side: always satisfies the distance rule
        seen, keep = set(), []
        for u in us:
            if u["type"] not in seen and not (u["type"] == "Both"):
                seen.add(u["type"])
                keep.append(u)
        us = keep
    return us


@st.composite
def loop_site(draw):
    """Two zones and a gliding utility loop (hot water / tempered water) one grade below the steam level: the loop's
    duty is limited by its slope, so the next level takes over in the middle of a table interval of the sink zone."""
    a = float(draw(st.integers(3, 12)) * 10)
    dt = draw(st.sampled_from([0.0, 5.0]))
    w = [draw(st.sampled_from([30.0, 50.0])), draw(st.sampled_from([20.0, 40.0])), draw(st.sampled_from([60.0, 80.0]))]
    q = lambda: draw(st.sampled_from([80.0, 200.0, 300.0, 600.0, 900.0]))  # noqa: E731
    t1, t2, t3 = a + w[0], a + w[0] + w[1], a + w[0] + w[1] + w[2]

    def S_(zone, name, ts, tt, duty):
        return {"zone": zone, "name": name, "t_supply": ts, "t_target": tt, "heat_flow": duty, "dt_cont": dt, "htc": 1.0}

    ss = [S_("P1", "C2", a, t1, q()), S_("P1", "C1", t1, t2, q()), S_("P1", "C3", t2, t3, q()), S_("P2", "H1", t3 - 20.0, a + 10.0, q()), S_("P2", "C4", a - 30.0, a, q())]
    loop_hi = t2 + draw(st.sampled_from([5.0, 10.0, 20.0]))
    us = [
        {"name": "HPS", "type": "Hot", "t_supply": t3 + 50.0, "t_target": t3 + 49.0, "heat_flow": None, "dt_cont": dt, "htc": 1.0, "price": 40.0, "active": True},
        {"name": "HW", "type": "Hot", "t_supply": loop_hi, "t_target": loop_hi - draw(st.sampled_from([40.0, 60.0, 80.0])), "heat_flow": None, "dt_cont": dt, "htc": 1.0, "price": 10.0, "active": True},
        {"name": "CW", "type": "Cold", "t_supply": a - 45.0, "t_target": a - 35.0, "heat_flow": None, "dt_cont": dt, "htc": 1.0, "price": 5.0, "active": True},
    ]
    case = {"streams": ss, "utilities": us}
    if draw(st.booleans()):  # the same on the cooling side
        for x in ss + us:
            x["t_supply"], x["t_target"] = -x["t_supply"], -x["t_target"]
        for u in us:
            u["type"] = {"Hot": "Cold", "Cold": "Hot"}[u["type"]]
    return case


@st.composite
def pair(draw, tier):
    mx = 7 if tier == "quick" else 10
    pal = draw(G.palette(thirds=False))
    ss = draw(G.streams(2, mx, None, "mixed", 0.1, pal=pal, thirds=False))
    gcc_base = draw(st.integers(0, 2)) == 0
    if gcc_base:
        # a stream set realising a drawn GCC shape: several pockets per side, closures on existing rows
        ss = draw(G.gcc_problem(max_rows=mx + 3, with_utilities=False))["streams"]
        pal = sorted({x for s in ss for x in (s["t_supply"], s["t_target"])})
    for s in ss:
        if s["t_supply"] == s["t_target"]:
            s["t_target"] = round(s["t_supply"] + 0.01, 6)  # the latent shorthand is directional: write it out
    us = draw(ladder(pal))
    base = {"streams": ss, "utilities": us}
    kind = draw(st.sampled_from(TRANSFORMS + ["mirror", "mirror", "parallel", "rename"]))
    loop_split = False
    if draw(st.integers(0, 3)) == 0:
        # a ladder with a long-glide level (a hot-oil / hot-water loop) whose duty is limited by its slope: the next level
        # takes over in the middle of a table interval, which is where a split stream adds a row
        from .c04 import glide_ladder

        is_loop = draw(st.booleans())
        gl = draw(loop_site() if is_loop else glide_ladder(tier))
        ss, us = gl["streams"], list(gl["utilities"])
        base = {"streams": ss, "utilities": us}
        if is_loop or draw(st.booleans()):
            kind = "split"
        loop_split = is_loop
    if gcc_base and draw(st.booleans()):
        kind = draw(st.sampled_from(["split", "mirror"]))  # the two relations that move or add rows next to pocket closures
    tr = {"kind": kind}
    if kind == "permute":
        tr["sperm"] = draw(st.permutations(list(range(len(ss)))))
        tr["uperm"] = draw(st.permutations(list(range(len(us)))))
    elif kind in ("split", "parallel"):
        tr["idx"] = draw(st.integers(0, 20))
        if kind == "split" and loop_split:
            tr["idx"] = draw(st.integers(0, 2))  # one of the sink streams of the loop site
        tr["frac"] = draw(st.sampled_from([0.5, 0.25, 0.4, 0.9, 0.125]))
    elif kind == "translate":
        tr["dT"] = draw(st.integers(-200, 200).filter(lambda k: k != 0)) * 0.5
        temps = sorted({x[k] for x in us + ss for k in ("t_supply", "t_target") if x[k] != 0.0})
        if temps and draw(st.booleans()):
            # land one temperature of the twin (a utility end twice as often as a stream end) exactly on 0.0
            utemps = sorted({x[k] for x in us for k in ("t_supply", "t_target") if x[k] != 0.0})
            glides = sorted({x["t_target"] for x in us if abs(x["t_supply"] - x["t_target"]) >= 1.0 and x["t_target"] != 0.0})
            if glides and draw(st.booleans()):
                utemps = glides  # the return temperature of a gliding utility
            tr["dT"] = -draw(st.sampled_from(utemps if utemps and draw(st.integers(0, 2)) else temps))
            tr["zero"] = True
    elif kind == "scale":
        tr["k"] = draw(st.sampled_from([0.1, 0.5, 2.0, 3.0, 10.0]))
    elif kind == "rename":
        if draw(st.integers(0, 3)) > 0:
            # the first two components always receive a related pair ('Plant' / 'Old Plant', 'A' / 'AA', ...), in either order
            a, b = draw(st.sampled_from([(0, 1), (2, 3), (2, 4), (5, 6), (1, 0), (3, 2), (4, 2), (6, 5)]))
            rest = [k for k in range(len(RENAME_POOL)) if k not in (a, b)]
            tr["pool"] = [a, b] + list(draw(st.permutations(rest)))
        if draw(st.booleans()):
            # both twins carry the hierarchy as an explicit zone tree (process zones; labelled nodes are leaves); the renamed twin
            # names its zones by full path, by path below the root, or by the bare zone name
            from .c01 import with_explicit_tree

            base = draw(with_explicit_tree(st.just(base)))
            tr["form"] = draw(st.sampled_from(["full", "relative", "leaf", "leaf"]))
    return {"base": base, "transform": tr}


PARTS = [Part("pairs", eval_case, {"quick": 2400, "thorough": 40000}, strategy=lambda tier: pair(tier), min_nontrivial={"quick": 290, "thorough": 7000})]
MIN_SHARE = {"pairs": {f"t:{k}": 0.03 for k in TRANSFORMS}}
