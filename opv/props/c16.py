"""C16  All input channels describe the same problem identically."""
from __future__ import annotations

import copy
import csv
import json
import os
import shutil
import tempfile

from hypothesis import strategies as st

from ..core.sut import call_sut
from ..core.types import Outcome, Part
from ..gen import problems as G
from ..gen import service as S

PID = "C16"
RULE = (
    "part channels: a problem (1-6 streams, thorough 1-8; 1-3 zones; utilities; printable stream / utility / zone names incl. a dictionary "
    "of awkward ones: NA, null, 1e3, 007, names with commas, quotes, dots, spaces) written by the harness as plain dict, TargetInput "
    "model, value-with-unit dict, JSON file, CSV directory, CSV pair and XLSX workbook with the three template sheets, each run through "
    "pinch_analysis_service and / or the PinchProblem wrapper with a generated sequence of target / target / export calls, in a third of the cases after the same wrapper object has loaded and targeted another problem (duties doubled) first - from another file or from the same path rewritten afterwards - and in a third followed by load(model of another problem) on that wrapper; "
    "oracle: every channel returns the targets of the plain-dict service call (record names compared after the root name and the "
    "readers' documented normalisation '.'->'-', digit-only prefixing, trimming; numbers exactly), target() returns the cached object, "
    "the exported workbook's sheet names are unique, <= 31 characters and free of : \\ / ? * [ ]. part sheetnames: generated sets of "
    "sheet labels (long, forbidden characters, equal after truncation or sanitising) given to _unique_sheet_name in sequence; same "
    "predicate. non-trivial (channels) = >= 3 channels evaluated on a problem with >= 2 zones or an awkward name; distinct by canonical JSON."
)
ASSUMPTIONS = [
    "files are written with Python's csv / json modules and openpyxl in the layout of Excel_Version/Data_input_template.xlsx (row 1 names, row 2 units, data from row 3)",
    "the root record name follows the project name (file stem / 'Untitled' for a CSV pair): compared after replacing the root name",
    "file channels carry no 'active' flag and no options: generated utilities are active and options are empty",
]

AWKWARD = ["NA", "null", "1e3", "007", "a,b", 'q"uote', "H.1", " padded ", "N/A", "True", "nan", "12", "x;y"]
FORBIDDEN = set(':\\/?*[]')


def norm_label(text: str, prefix: str) -> str:
    """The workbook reader's documented normalisation of zone / stream labels."""
    t = str(text).strip().replace(".", "-")
    if t.isdigit():
        t = prefix + t
    return t


def targets_view(result, root):
    out = []
    for t in result.targets:
        name = t.name
        zone, kind = name.rsplit("/", 1)
        if zone == root:
            zone = "<root>"
        tp = t.temp_pinch
        out.append(
            (
                f"{zone}/{kind}",
                S.val(t.Qh),
                S.val(t.Qc),
                S.val(t.Qr),
                tuple((u.name, S.val(u.heat_flow)) for u in t.hot_utilities),
                tuple((u.name, S.val(u.heat_flow)) for u in t.cold_utilities),
                S.val(tp.cold_temp),
                S.val(tp.hot_temp),
                S.val(t.utility_cost),
            )
        )
    digest = []
    for key, gs in sorted((result.graphs or {}).items()):
        zone, kind = key.rsplit("/", 1)
        zone = "<root>" if zone == root else zone
        for g in gs.graphs:
            digest.append((f"{zone}/{kind}", g.type, sum(len(sg.data_points) for sg in g.segments)))
    return sorted(out, key=lambda r: r[0]) + [("graphs", tuple(sorted(digest)))]


def vu_case(case):
    c = copy.deepcopy(case)
    for s in c["streams"]:
        for k, un in (("t_supply", "degC"), ("t_target", "degC"), ("heat_flow", "kW"), ("dt_cont", "degC"), ("htc", "kW/m^2/degC")):
            s[k] = {"value": s[k], "units": un}
    for u in c["utilities"]:
        for k, un in (("t_supply", "degC"), ("t_target", "degC"), ("dt_cont", "degC"), ("htc", "kW/m^2/degC"), ("price", "$/MWh")):
            u[k] = {"value": u[k], "units": un}
        u["heat_flow"] = {"value": 0.0, "units": "kW"}
    return c


S_HEAD = ["Process Zone", "Stream", "TS", "TT", "ΔH", "ΔTcont", "HTC"]
S_UNIT = [None, None, "°C", "°C", "kW", "°C", "kW/m2/°C"]
U_HEAD = ["Utility", "Type", "Ts", "Tt", "ΔTcont", "Price", "HTC"]
U_UNIT = [None, None, "°C", "°C", "°C", "$/MWh", "kW/m2/°C"]


def s_rows(case):
    return [[s["zone"], s["name"], s["t_supply"], s["t_target"], s["heat_flow"], s["dt_cont"], s["htc"]] for s in case["streams"]]


def u_rows(case):
    return [[u["name"], u["type"], u["t_supply"], u["t_target"], u["dt_cont"], u["price"], u["htc"]] for u in case["utilities"]]


def write_csv(path, head, units, rows):
    with open(path, "w", newline="", encoding="utf-8") as fh:
        w = csv.writer(fh)
        w.writerow(head)
        w.writerow(["" if u is None else u for u in units])
        for r in rows:
            w.writerow([repr(x) if isinstance(x, float) else x for x in r])


def write_xlsx(path, case):
    import openpyxl

    options = case.get("options") or {}
    wb = openpyxl.Workbook()
    ws = wb.active
    ws.title = "Stream Data"
    ws.append(S_HEAD)
    ws.append(S_UNIT)
    for r in s_rows(case):
        ws.append(r)
    wu = wb.create_sheet("Utility Data")
    wu.append(U_HEAD)
    wu.append(U_UNIT)
    for r in u_rows(case):
        wu.append(r)
    wo = wb.create_sheet("Options")
    wo.append(["### General parameters ###", "Value (blank = default value)"])
    for key in ("TOP_ZONE_NAME", "DT_CONT", "DT_PHASE_CHANGE", "DO_BALANCED_CC", "DO_VERTICAL_GCC"):
        wo.append([key, options.get(key)])
    wo.append(["### Targeting analysis flags ###", None])
    for key, val in options.items():
        if key not in ("DT_CONT", "DT_PHASE_CHANGE", "DO_BALANCED_CC", "DO_VERTICAL_GCC"):
            wo.append([key, val])
    wb.save(path)


def sheet_ok(names):
    probs = []
    if len(set(names)) != len(names):
        probs.append(f"duplicate sheet names {sorted(n for n in set(names) if names.count(n) > 1)}")
    for n in names:
        if len(n) > 31:
            probs.append(f"{n!r} longer than 31 characters")
        if set(n) & FORBIDDEN:
            probs.append(f"{n!r} contains a forbidden character")
        if n == "":
            probs.append("empty sheet name")
    return probs


def eval_channels(case) -> Outcome:
    from OpenPinch.classes.pinch_problem import PinchProblem
    from OpenPinch.lib.schema import TargetInput
    from OpenPinch.main import pinch_analysis_service

    out = Outcome()
    base = {"streams": case["streams"], "utilities": case["utilities"]}
    if case.get("zone_tree"):
        base["zone_tree"] = case["zone_tree"]
        out.labels.add("explicit-zone-tree")
    opts = case.get("options")
    if opts:
        base["options"] = opts
        out.labels.add("with-options")
    names = [s["name"] for s in base["streams"]] + [s["zone"] for s in base["streams"]] + [u["name"] for u in base["utilities"]]
    awkward = sorted({n for n in names if n in AWKWARD})
    for n in awkward:
        out.labels.add("awkward-name")
    out.rc |= {f"name:{n}" for n in awkward}
    if awkward:
        out.rc.add("awkward-name")
    nzones = len({s["zone"] for s in base["streams"]})
    S.clear_graph_accumulator()
    ok, ref = call_sut(pinch_analysis_service, copy.deepcopy(base), "Site")
    if not ok:
        out.fail("C16.sut_exception:" + ref, f"plain dict channel raised {ref}: {call_sut.last_message}")
        return out
    want = targets_view(ref, "Site")
    # what the workbook reader is documented to do with labels
    norm = copy.deepcopy(base)
    for s in norm["streams"]:
        s["zone"], s["name"] = norm_label(s["zone"], "Z"), norm_label(s["name"], "S")
    S.clear_graph_accumulator()
    okn, refn = call_sut(pinch_analysis_service, copy.deepcopy(norm), "Site")
    want_norm = targets_view(refn, "Site") if okn else None
    tmp = tempfile.mkdtemp(prefix="opv_c16_")
    n_channels = 0
    try:
        def compare(tag, result, root, expected=want):
            got = targets_view(result, root)
            if got != expected:
                diff = next(((a, b) for a, b in zip(got, expected) if a != b), (len(got), len(expected)))
                out.fail(f"C16.channel_{tag}", f"channel {tag} differs from the plain-dict result; first difference: {diff}")

        for ch in case["channels"]:
            if opts and ch in ("csvdir", "csvpair"):
                continue  # the CSV bundle has no options file
            S.clear_graph_accumulator()
            if ch == "model":
                okm, model = call_sut(TargetInput.model_validate, copy.deepcopy(base))
                if not okm:
                    out.fail("C16.sut_exception:" + model, f"TargetInput.model_validate raised {model}")
                    continue
                okr, r = call_sut(pinch_analysis_service, model, "Site")
                if okr:
                    compare("model", r, "Site")
                else:
                    out.fail("C16.channel_model_raises", f"model channel raised {r}: {call_sut.last_message}")
                # a caller that keeps its validated model and analyses it again gets the same problem again
                S.clear_graph_accumulator()
                okr, r = call_sut(pinch_analysis_service, model, "Site")
                if okr:
                    compare("model_again", r, "Site")
                else:
                    out.fail("C16.channel_model_again_raises", f"second analysis of the same validated model raised {r}: {call_sut.last_message}")
            elif ch == "vu":
                okr, r = call_sut(pinch_analysis_service, vu_case(base), "Site")
                if okr:
                    compare("vu", r, "Site")
                else:
                    out.fail("C16.channel_vu_raises", f"value-with-unit channel raised {r}: {call_sut.last_message}")
            elif ch == "vu_mixed":
                okr, r = call_sut(pinch_analysis_service, S.apply_spelling(copy.deepcopy(base), case.get("spelling") or [1, 0]), "Site")
                if okr:
                    compare("vu_mixed", r, "Site")
                else:
                    out.fail("C16.channel_vu_mixed_raises", f"mixed bare / value-with-unit spelling {case.get('spelling')} raised {r}: {call_sut.last_message}")
            elif ch in ("json", "csvdir", "csvpair", "xlsx", "from_json"):
                d = os.path.join(tmp, ch)
                os.makedirs(d, exist_ok=True)
                root = "Site"
                if ch == "json":
                    src = os.path.join(d, "Site.json")
                    with open(src, "w", encoding="utf-8") as fh:
                        json.dump(base, fh)
                elif ch == "from_json":
                    src = None
                elif ch == "csvdir":
                    src = os.path.join(d, "Site")
                    os.makedirs(src, exist_ok=True)
                    write_csv(os.path.join(src, "streams.csv"), S_HEAD, S_UNIT, s_rows(base))
                    write_csv(os.path.join(src, "utilities.csv"), U_HEAD, U_UNIT, u_rows(base))
                elif ch == "csvpair":
                    a, b = os.path.join(d, "s.csv"), os.path.join(d, "u.csv")
                    write_csv(a, S_HEAD, S_UNIT, s_rows(base))
                    write_csv(b, U_HEAD, U_UNIT, u_rows(base))
                    src = (a, b)
                    root = "Untitled"
                else:
                    src = os.path.join(d, "Site.xlsx")
                    write_xlsx(src, base)
                if ch == "from_json":
                    okl, p = call_sut(PinchProblem.from_json, copy.deepcopy(base))
                    root = "Untitled"
                else:
                    p = PinchProblem()
                    if case.get("preload") and ch in ("json", "xlsx"):
                        # the same wrapper first loads and targets another problem (every duty doubled): what it
                        # answers after loading the real source must not come from that earlier run
                        other = copy.deepcopy(base)
                        for s_ in other["streams"]:
                            s_["heat_flow"] = s_["heat_flow"] * 2.0
                        same_path = bool(case.get("preload_same_path"))
                        od = os.path.join(d, "other")
                        os.makedirs(od, exist_ok=True)
                        # either another file, or the very same path whose content is rewritten afterwards
                        osrc = src if same_path else os.path.join(od, "Site" + os.path.splitext(src)[1])
                        if ch == "json":
                            with open(osrc, "w", encoding="utf-8") as fh:
                                json.dump(other, fh)
                        else:
                            write_xlsx(osrc, other)
                        okp, _ = call_sut(p.load, osrc)
                        if okp:
                            call_sut(p.target)
                            out.labels.add("wrapper-reloaded")
                            if same_path:
                                out.labels.add("wrapper-reloaded-same-path")
                        if same_path:  # put the real problem back behind that path
                            if ch == "json":
                                with open(src, "w", encoding="utf-8") as fh:
                                    json.dump(base, fh)
                            else:
                                write_xlsx(src, base)
                    okl, _ = call_sut(p.load, src)
                if not okl:
                    out.fail(f"C16.channel_{ch}_raises", f"{ch}: load raised {p if ch == 'from_json' else _}: {call_sut.last_message}")
                    continue
                results = []
                failed = False
                for op in case["ops"]:
                    if op == "target":
                        okt, r = call_sut(p.target)
                        if not okt:
                            out.fail(f"C16.channel_{ch}_raises", f"{ch}: target() raised {r}: {call_sut.last_message}")
                            failed = True
                            break
                        results.append(r)
                    elif op == "export":
                        ed = os.path.join(d, "out")
                        os.makedirs(ed, exist_ok=True)
                        oke, path = call_sut(p.export_to_Excel, ed)
                        if not oke:
                            out.fail("C16.export_raises", f"{ch}: export_to_Excel raised {path}: {call_sut.last_message}")
                            failed = True
                            break
                        import openpyxl

                        wb = openpyxl.load_workbook(path, read_only=True)
                        probs = sheet_ok(list(wb.sheetnames))
                        wb.close()
                        if probs:
                            out.fail("C16.export_sheet_names", f"{ch}: exported workbook: {probs[:3]}")
                        out.labels.add("exported")
                if failed:
                    continue
                okt, r = call_sut(p.target)
                if not okt:
                    out.fail(f"C16.channel_{ch}_raises", f"{ch}: target() raised {r}: {call_sut.last_message}")
                    continue
                if any(x is not r for x in results):
                    out.fail("C16.target_not_cached", f"{ch}: repeated target() returned a different object")
                zone_before = p.master_zone
                p.target()
                if p.master_zone is not zone_before:
                    out.fail("C16.target_not_cached", f"{ch}: the zone tree object changed on a repeated target()")
                compare(ch, r, root, want_norm if (ch == "xlsx" and want_norm is not None) else want)
                if case.get("reload_model") and ch != "from_json":
                    # the same wrapper is then handed a validated model of another problem (duties doubled)
                    other = copy.deepcopy(base)
                    for s_ in other["streams"]:
                        s_["heat_flow"] = s_["heat_flow"] * 2.0
                    S.clear_graph_accumulator()
                    oko, ref_o = call_sut(pinch_analysis_service, copy.deepcopy(other), root)
                    okm, model_o = call_sut(TargetInput.model_validate, copy.deepcopy(other))
                    if oko and okm:
                        okl2, _ = call_sut(p.load, model_o)
                        okt2, r2 = call_sut(p.target) if okl2 else (False, None)
                        if okl2 and okt2:
                            out.labels.add("wrapper-then-model")
                            compare(ch + "_then_model", r2, root, targets_view(ref_o, root))
                        else:
                            out.fail(f"C16.channel_{ch}_raises", f"{ch}: load(model) / target() after a file load raised: {call_sut.last_message}")
            n_channels += 1
    finally:
        shutil.rmtree(tmp, ignore_errors=True)
    out.nontrivial = n_channels >= 3 and (nzones >= 2 or bool(awkward))
    if nzones >= 2:
        out.labels.add("zones>=2")
    for ch in case["channels"]:
        out.labels.add("ch:" + ch)
    return out


def eval_sheetnames(case) -> Outcome:
    from OpenPinch.utils.export import _unique_sheet_name

    out = Outcome()
    used = set()
    got = []
    for label in case["labels"]:
        ok, name = call_sut(_unique_sheet_name, label, used)
        if not ok:
            out.fail("C16.sut_exception:" + name, f"_unique_sheet_name({label!r}) raised {name}: {call_sut.last_message}")
            return out
        got.append(name)
    probs = sheet_ok(got)
    if probs:
        out.fail("C16.sheet_names", f"labels {case['labels']} -> {got}: {probs[:3]}")
    if sorted(used) != sorted(set(got)):
        out.fail("C16.sheet_names_used_set", f"the 'used' set {sorted(used)} differs from the returned names {sorted(got)}")
    san = [("".join("_" if ch in FORBIDDEN else ch for ch in l).strip())[:31] for l in case["labels"]]
    out.nontrivial = len(set(san)) < len(san) or any(len(l) > 31 for l in case["labels"]) or any(set(l) & FORBIDDEN for l in case["labels"])
    if len(set(san)) < len(san):
        out.labels.add("equal-after-truncation-or-sanitising")
    if any(len(l) > 31 for l in case["labels"]):
        out.labels.add("long")
    if max(case["labels"].count(l) for l in case["labels"]) >= 10:
        out.labels.add("same-label>=10-times")
    return out


# ------------------------------------------------------------------------------------- generators
@st.composite
def channel_case(draw, tier):
    mx = 6 if tier == "quick" else 8
    plain = st.sampled_from(["S1", "S2", "H1", "C1", "Feed pre-heat", "Reboiler", "prod", "Cooling of BB2"])
    name = st.one_of(plain, plain, plain, st.sampled_from(AWKWARD))
    zones = draw(st.sampled_from([["P1"], ["P1", "P2"], ["Plant A", "Plant B", "P3"], ["Area/U1", "Area/U2"], ["Z.1", "7"]]))
    pal = draw(G.palette(thirds=False))
    n = draw(st.integers(1, mx))
    ss = [draw(G.stream(pal, zones, names=name, iso_share=0.1, thirds=False)) for _ in range(n)]
    us = []
    for u in draw(G.utilities(pal, 2, 2, 1, thirds=False)):
        u = dict(u)
        u["active"] = True
        u["heat_flow"] = 0.0
        u.pop("heat_flow")
        if draw(st.integers(0, 4)) == 0:
            u["name"] = draw(st.sampled_from(AWKWARD))
        us.append(u)
    chans = draw(st.lists(st.sampled_from(["model", "vu", "vu_mixed", "json", "from_json", "csvdir", "csvpair", "xlsx"]), min_size=3, max_size=5, unique=True))
    ops = draw(st.lists(st.sampled_from(["target", "target", "export"]), min_size=0, max_size=3))
    case = {"streams": ss, "utilities": us, "channels": chans, "ops": ops, "preload": draw(st.integers(0, 2)) == 0, "preload_same_path": draw(st.booleans()), "reload_model": draw(st.integers(0, 2)) == 0}
    if all("/" not in z and "." not in z and not z.isdigit() for z in zones) and draw(st.integers(0, 3)) == 0:
        # the hierarchy as a user zone tree in generic spellings; file formats without a tree sheet are left out
        alias = draw(st.sampled_from(["Zone", "Process Zone", "Sub-Zone"]))
        case["zone_tree"] = {"name": "Site", "type": draw(st.sampled_from(["Site", "Zone"])), "children": [{"name": z, "type": alias, "children": None} for z in zones]}
        if draw(st.booleans()):
            ss[0]["zone"] = "Site"  # a stream attached to the root zone itself
        chans = [c for c in chans if c in ("model", "vu", "vu_mixed", "json")]  # from_json names the project "Untitled", the tree names its root "Site"
        if "model" not in chans:
            chans.append("model")
        case["channels"] = chans
    if "vu_mixed" in chans:
        case["spelling"] = draw(st.lists(st.integers(0, 3), min_size=2, max_size=11).filter(lambda l: any(l) and not all(l)))
    if draw(st.integers(0, 3)) == 0:
        case["options"] = draw(st.sampled_from([{"DT_CONT": 10.0}, {"DT_CONT": 2.5, "DT_PHASE_CHANGE": 0.5}, {"DO_VERTICAL_GCC": True}, {"DO_BALANCED_CC": False, "DT_CONT": 7.5}, {"UTILITY_PRICE": 0.0}, {"DT_CONT": 0.0, "UTILITY_PRICE": 0}, {"DO_BALANCED_CC": False}, {"UTILITY_PRICE": 125.5, "ANNUAL_OP_TIME": 8000}]))
    return case


@st.composite
def sheet_labels(draw):
    base = st.sampled_from(["Site", "Plant A", "Process Zone with a very long descriptive name", "A/B", "Unit[1]", "x:y", "q?", "star*", "back\\slash", "Z" * 40, "'quoted'", ""])
    kind = st.sampled_from(["Direct Integration", "Total Site Target", "Total Process Target"])
    lab = st.tuples(base, base, kind, st.sampled_from(["Shifted", "Real"])).map(lambda t: f"{t[0]} - {t[1]}/{t[2]} ({t[3]})")
    labels = draw(st.lists(st.one_of(lab, base, st.text(alphabet="ab:/ []*?\\'x", min_size=0, max_size=45)), min_size=1, max_size=12))
    # many zones whose sheet labels coincide after truncation: suffixes run into two and three digits
    if draw(st.integers(0, 3)) == 0:
        rep = draw(st.one_of(lab, base))
        labels += [rep] * draw(st.sampled_from([9, 10, 11, 12, 25, 101]))
        labels = draw(st.permutations(labels)) if len(labels) < 40 else labels
    return {"labels": labels}


PARTS = [
    Part("channels", eval_channels, {"quick": 160, "thorough": 4000}, strategy=lambda tier: channel_case(tier), min_nontrivial={"quick": 40, "thorough": 1000}),
    Part("sheetnames", eval_sheetnames, {"quick": 3000, "thorough": 100000}, strategy=lambda tier: sheet_labels(), min_nontrivial={"quick": 1000, "thorough": 30000}),
]
MIN_SHARE = {"channels": {"wrapper-reloaded": 0.1, "wrapper-then-model": 0.08, "awkward-name": 0.2, "zones>=2": 0.22, "ch:xlsx": 0.17, "ch:csvdir": 0.17, "ch:json": 0.2}}

FUZZ = {"sheetnames": None}  # parts also driven by the coverage-guided supplement (thorough tier)
