"""C09  Total-site targets are additive over zones and bracketed by bounds."""
from __future__ import annotations

from fractions import Fraction as Fr

from hypothesis import strategies as st

from ..core.types import Outcome, Part
from ..gen import problems as G
from ..gen import service as S
from ..ref import cascade as C
from . import _pipeline as P

PID = "C09"
RULE = (
    "sites of 1-4 process zones (flat / nested label-safe labels) with 2-8 (thorough 2-12) streams and utility ladders incl. intermediate "
    "'Both' levels; a third of the budget builds a source zone (hot streams high) and a sink zone (cold streams lower) with a Both level in "
    "between so that inter-zone recovery through the utility system is possible. oracle: Total-Process target = sum of the child zones' DI "
    "targets (Qh, Qc, Qr and every utility by name); site DI <= Total-Site <= Total-Process for Qh and Qc; Qr_TS = Qr_TZ + (Qh_TZ - Qh_TS). "
    "non-trivial = >= 2 zones and a Both level that lies below one zone's exact cold pinch and above another zone's exact hot pinch; "
    "distinct by canonical JSON."
)
ASSUMPTIONS = [
    "site DI / zone DI values are compared with the exact cascade elsewhere (C01); here only the relations between reported records are decided, plus exact sums for the Total-Process values",
    "tolerance 1e-6 x total duty of the site",
]


def eval_case(case) -> Outcome:
    out = Outcome()
    an = P.Analysis(case, out, "C09")
    if not an.ok:
        return out
    if case.get("shape"):
        out.labels.add(case["shape"])
    P.classify_site(out, an)
    P.root_causes(out, an)
    root_ok = False
    for site_path, site, c in an.zones:
        if site.identifier != "Site":
            continue
        if site_path == ():
            root_ok = True
        elif True:
            out.labels.add("nested-site")
        check_site(out, an, case, site_path, site, c)
    if not root_ok and () not in S.container_paths(case):
        out.fail("C09.records_missing", "the root zone is not a site")
    return out


def check_site(out, an, case, site_path, site, c):
    eps = P.eps_of(c)
    where0 = "/".join(site_path) or "<root>"
    di, tz, ts = an.target(site, S.DI), an.target(site, S.TZ), an.target(site, S.TS)
    if tz is None or ts is None or di is None:
        out.fail("C09.records_missing", f"site {where0}: targets present: DI={di is not None} TZ={tz is not None} TS={ts is not None}")
        return out
    d = len(site_path)
    kids = [(p, z, cz) for p, z, cz in an.zones if len(p) == d + 1 and p[:d] == site_path and an.target(z, S.DI) is not None]
    if len(kids) >= 2:
        out.labels.add("zones>=2")
    # --- Total-Process = sum of zones (against the reported zone values and against exact zone cascades)
    for nm, attr in (("Qh", "hot_utility_target"), ("Qc", "cold_utility_target"), ("Qr", "heat_recovery_target")):
        rep = sum(float(getattr(an.target(z, S.DI), attr)) for _, z, _ in kids)
        got = float(getattr(tz, attr))
        if abs(got - rep) > eps:
            out.fail(f"C09.tz_sum_{nm}", f"{where0}: Total-Process {nm}={got!r} but the zones' DI targets sum to {rep!r}")
        exact = float(sum((getattr(cz, nm) for _, _, cz in kids), Fr(0)))
        if abs(got - exact) > eps:
            out.fail(f"C09.tz_exact_{nm}", f"Total-Process {nm}={got!r} but the exact zonal cascades sum to {exact!r}")
    for side in ("hot", "cold"):
        rows = P.ut_rows(tz, side)
        for u in rows:
            tot = 0.0
            for _, z, _ in kids:
                zr = [r for r in P.ut_rows(an.target(z, S.DI), side) if r["name"] == u["name"]]
                tot += sum(r["q"] for r in zr)
            if sum(1 for r in rows if r["name"] == u["name"]) == 1 and abs(tot - u["q"]) > eps:
                out.fail("C09.tz_utility_by_name", f"Total-Process {side} utility {u['name']}={u['q']!r} but the zones carry {tot!r}")
    # --- bracket
    for nm, attr in (("Qh", "hot_utility_target"), ("Qc", "cold_utility_target")):
        lo, mid, hi = float(getattr(di, attr)), float(getattr(ts, attr)), float(getattr(tz, attr))
        if mid > hi + eps:
            out.fail(f"C09.ts_le_tz_{nm}", f"Total-Site {nm}={mid!r} exceeds the summed zonal target {hi!r}")
        if mid < lo - eps:
            out.fail(f"C09.ts_ge_di_{nm}", f"Total-Site {nm}={mid!r} is below the site's own direct-integration target {lo!r}")
    # --- recovery identity
    want = float(tz.heat_recovery_target) + (float(tz.hot_utility_target) - float(ts.hot_utility_target))
    if abs(float(ts.heat_recovery_target) - want) > eps:
        out.fail("C09.ts_recovery_identity", f"Total-Site Qr={float(ts.heat_recovery_target)!r} but Qr_TZ + (Qh_TZ - Qh_TS) = {want!r}")
    if float(ts.hot_utility_target) < float(tz.hot_utility_target) - eps:
        out.labels.add("recovery-observed")
    # --- non-trivial: a Both level between a source zone and a sink zone
    boths = [u for u in P.expanded_utilities(case) if u["type"] == "Both"]
    if len(kids) >= 2 and boths:
        for u in boths:
            src = snk = None
            for p, z, cz in kids:
                if not cz.T or min(cz.R) != 0:
                    continue
                zeros = [tt for tt, r in zip(cz.T, cz.R) if r == 0]
                if cz.Qc > 0 and u["hi"] + u["dt"] < min(zeros):
                    src = p
                if cz.Qh > 0 and u["lo"] - u["dt"] > max(zeros):
                    snk = snk or p
                    if src is not None and src != p:
                        snk = p
            if src is not None and snk is not None and src != snk:
                out.nontrivial = True
                out.labels.add("both-level-between-source-and-sink")
    return out


@st.composite
def source_sink_site(draw, tier):
    mx = 4 if tier == "quick" else 6
    lvl = float(draw(st.integers(120, 220)))
    dtb = draw(st.sampled_from([0.0, 2.5, 5.0]))
    streams = []
    for i in range(draw(st.integers(1, mx))):  # source zone: hot streams above the level
        hi = lvl + draw(st.integers(30, 200))
        lo = lvl + draw(st.integers(-60, 25))
        streams.append({"zone": "Src", "name": f"H{i}", "t_supply": float(hi), "t_target": float(min(lo, hi - 5)), "heat_flow": draw(G.duty()), "dt_cont": draw(st.sampled_from([0.0, 2.5, 5.0])), "htc": 1.0})
    for i in range(draw(st.integers(1, mx))):  # sink zone: cold streams below the level
        hi = lvl - draw(st.integers(15, 100))
        lo = hi - draw(st.integers(5, 80))
        streams.append({"zone": "Snk", "name": f"C{i}", "t_supply": float(lo), "t_target": float(hi), "heat_flow": draw(G.duty()), "dt_cont": draw(st.sampled_from([0.0, 2.5, 5.0])), "htc": 1.0})
    for z in ("Src", "Snk"):
        for i in range(draw(st.integers(0, 2))):
            streams.append(draw(G.stream([lvl - 100, lvl - 50, lvl, lvl + 50, lvl + 100, 20.0], [z], iso_share=0.05, thirds=False)))
    if draw(st.booleans()):
        streams += draw(st.lists(G.stream([lvl - 80, lvl + 80, 30.0, 300.0], ["Third"], thirds=False), min_size=1, max_size=3))
    utils = [
        {"name": "MP", "type": "Both", "t_supply": lvl, "t_target": lvl if draw(st.booleans()) else lvl - 1.0, "heat_flow": None, "dt_cont": dtb, "htc": 1.0, "price": 20.0, "active": True},
        {"name": "HP", "type": "Hot", "t_supply": lvl + 300.0, "t_target": lvl + 300.0, "heat_flow": None, "dt_cont": 5.0, "htc": 1.0, "price": 40.0, "active": True},
        {"name": "CW", "type": "Cold", "t_supply": -80.0, "t_target": -70.0, "heat_flow": None, "dt_cont": 5.0, "htc": 1.0, "price": 5.0, "active": True},
    ]
    if draw(st.booleans()):
        utils.append({"name": "LP", "type": "Both", "t_supply": lvl - 40.0, "t_target": lvl - 40.0, "heat_flow": None, "dt_cont": dtb, "htc": 1.0, "price": 10.0, "active": True})
    if draw(st.booleans()):
        # a second way of raising utility on (almost) the same level as MP: an export line within the 1 K matching window
        off = draw(st.sampled_from([0.0, 0.3, 0.6]))
        utils.append({"name": "MP export", "type": "Cold", "t_supply": round(lvl - 0.5 - off / 2, 3), "t_target": round(lvl + off / 2, 3), "heat_flow": None, "dt_cont": dtb, "htc": 1.0, "price": 1.0, "active": True})
    return {"streams": streams, "utilities": draw(st.permutations(utils))}


@st.composite
def nested_site(draw, tier):
    """Explicit zone tree with a site inside the site: Site -> [SA (Site) -> [P1, P2], P3]."""
    mx = 6 if tier == "quick" else 9
    pal = draw(G.palette(thirds=False))
    labels = ["SA/P1", "SA/P2", "P3"]
    ss = []
    for i, lab in enumerate(labels):
        for _ in range(draw(st.integers(1, 3))):
            ss.append(draw(G.stream(pal, [lab], iso_share=0.05, thirds=False)))
    ss = ss[: mx + 3]
    us = draw(G.utilities(pal, 2, 2, 2, thirds=False))
    tree = {
        "name": "Site",
        "type": "Site",
        "children": [
            {"name": "SA", "type": "Site", "children": [{"name": "P1", "type": "Process Zone", "children": None}, {"name": "P2", "type": "Process Zone", "children": None}]},
            {"name": "P3", "type": "Process Zone", "children": None},
        ],
    }
    if not any(x["zone"] == "SA/P2" for x in ss):
        tree["children"][0]["children"].pop(1)
    return {"streams": ss, "utilities": us, "zone_tree": tree}


@st.composite
def double_pinch_site(draw, tier):
    """One zone whose cascade is pinched at two temperatures with a positive bulge between them (a source exactly
    balanced by a sink directly below it), next to an ordinary zone; ladders that mostly leave the bulge alone.  The
    zone's own utility demand is then Qh / Qc although its grand composite curve rises between the pinches - what the
    zones pass to the site utility system must not contain that bulge."""
    dt = draw(st.sampled_from([0.0, 5.0, 10.0]))
    top = float(draw(st.integers(150, 350)))
    gaps = [float(draw(st.sampled_from([10.0, 20.0, 30.0, 50.0]))) for _ in range(4)]
    T = [top]
    for g in gaps:
        T.append(T[-1] - g)
    q0 = float(draw(st.sampled_from([50.0, 120.0, 400.0])))
    h = float(draw(st.sampled_from([40.0, 80.0, 250.0])))
    q3 = float(draw(st.sampled_from([30.0, 90.0, 400.0])))
    hot = lambda nm, hi, lo, q: {"zone": "P1", "name": nm, "t_supply": round(hi + dt, 6), "t_target": round(lo + dt, 6), "heat_flow": q, "dt_cont": dt, "htc": 1.0}
    cold = lambda nm, hi, lo, q: {"zone": "P1", "name": nm, "t_supply": round(lo - dt, 6), "t_target": round(hi - dt, 6), "heat_flow": q, "dt_cont": dt, "htc": 1.0}
    ss = [cold("C0", T[0], T[1], q0), hot("H1", T[1], T[2], h), cold("C2", T[2], T[3], h), hot("H3", T[3], T[4], q3)]
    if draw(st.booleans()):  # the bulge split over two parallel sources
        ss[1]["heat_flow"] = h / 2
        ss.append(hot("H1b", T[1], T[2], h / 2))
    pal = sorted({round(t + d, 3) for t in T for d in (-15.0, 0.0, 15.0)})
    for _ in range(draw(st.integers(1, 4))):
        ss.append(draw(G.stream(pal, ["P2"], iso_share=0.05, thirds=False)))
    us = draw(st.sampled_from(["none", "none", "outside", "ladder"]))
    if us == "none":
        utils = []
    elif us == "outside":
        utils = [
            {"name": "HP", "type": "Hot", "t_supply": round(top + 60.0, 3), "t_target": round(top + 60.0, 3), "heat_flow": None, "dt_cont": 5.0, "htc": 1.0, "price": 40.0, "active": True},
            {"name": "CW", "type": "Cold", "t_supply": round(T[-1] - 80.0, 3), "t_target": round(T[-1] - 70.0, 3), "heat_flow": None, "dt_cont": 5.0, "htc": 1.0, "price": 5.0, "active": True},
        ]
    else:
        utils = draw(G.utilities(pal, 2, 2, 2, thirds=False))
    return {"streams": draw(st.permutations(ss)), "utilities": utils, "shape": "double-pinch-zone"}


def strategy(tier):
    mx = 8 if tier == "quick" else 12
    return G.with_options(st.one_of(
        source_sink_site(tier),
        nested_site(tier),
        double_pinch_site(tier),
        G.community_problem(),
        G.problem(min_streams=3, max_streams=mx, shape="mixed", multi_zone=True, max_both=2),
        G.problem(min_streams=2, max_streams=mx, multi_zone=True, max_both=2, isothermal_utils=True),
        G.problem(min_streams=2, max_streams=mx, shape="mixed", max_both=2),
    ))


PARTS = [Part("service", eval_case, {"quick": 1000, "thorough": 25000}, strategy=strategy, min_nontrivial={"quick": 100, "thorough": 2500})]
MIN_SHARE = {"service": {"nested-site": 0.096, "zones>=2": 0.4, "both-level-between-source-and-sink": 0.1, "recovery-observed": 0.05}}
