"""C10  Zone-tree construction conserves the streams."""
from __future__ import annotations

import copy
import re
from collections import Counter

from hypothesis import strategies as st

from ..core.sut import call_sut
from ..core.types import Outcome, Part
from ..gen import problems as G
from ..gen import service as S

PID = "C10"
RULE = (
    "hostile label sets over a small alphabet (incl. names that end with the text of another name: A, BA, Plant A): flat names, '/'-paths of depth 1-4, labels that are '/'-suffixes or prefixes of other labels, "
    "labels or components equal to generated unit-operation names (O1, O2 ...), the root name as label, names with inner spaces, non-canonical spellings of a label (blanks around separators, trailing or doubled separator), empty "
    "labels, duplicate stream names within and across zones; with and without a user zone tree (built from the label set; labels then "
    "given as full path, relative path or unambiguous leaf name; labelled non-leaf nodes and ambiguous suffixes are flagged classes). "
    "oracle (counting): the zone at label path p holds exactly the multiset of streams whose label has p as a component-wise prefix (hot and "
    "cold collections separately), synthesised unit-operation children partition the streams labelled exactly p one per zone, the root holds "
    "every labelled stream once, nothing is placed for empty labels, and the utility objects of different zones are distinct objects with "
    "equal values. checked on prepare_problem() and on the tree returned by the service. non-trivial = >= 2 distinct labels of which one "
    "pair shares a path component; distinct by canonical JSON."
)
ASSUMPTIONS = [
    "streams are identified by their value tuple (name, temperatures, duty, contribution, coefficient) as a multiset - the code keeps no link to the input object",
    "path components are compared after the tree synthesiser's own splitting rule ('/'-separated, components stripped)",
    "with a user tree every label is generated to resolve to exactly one node except in the flagged class 'ambiguous-suffix'",
]

ONAME = re.compile(r"^O\d+$")


def skey(s):
    """Value identity of an input stream as the Stream object will carry it."""
    ts, tt, q = s["t_supply"], s["t_target"], s["heat_flow"]
    if ts == tt:
        tt = ts + 0.01  # documented latent expansion (positive duty -> cold)
    return (s["name"], round(ts, 6), round(tt, 6), round(q, 6), round(s["dt_cont"], 6), round(s["htc"], 6))


def okey(o):
    return (o.name, round(o.t_supply, 6), round(o.t_target, 6), round(o.heat_flow, 6), round(o.dt_cont, 6), round(o.htc, 6))


def is_hot(s):
    return s["t_supply"] > s["t_target"]


def label_classes(paths):
    cl = set()
    P = sorted(set(paths))
    for x in P:
        for y in P:
            if x != y and len(y) < len(x) and x[len(x) - len(y):] == y:
                cl.add("suffix-pair")
            if x != y and len(y) < len(x) and x[: len(y)] == y:
                cl.add("prefix-pair")
    if any(ONAME.match(c) for p in P for c in p):
        cl.add("o-name-clash")
    for x in P:
        for y in P:
            if len(y) > len(x) and y[: len(x)] == x and ONAME.match(y[len(x)]):
                cl.add("label-extends-label-by-O-name")
    return cl


def check_tree(out: Outcome, master, case, resolved, tag, user_tree):
    """resolved: list of (stream dict, path tuple below root) for streams that must be placed."""
    zones = {p: z for p, z in S.walk(master)}
    # multiple zones may share a path if names repeat; walk() keeps the last - count them
    paths_seen = Counter(p for p, _ in S.walk(master))
    for p, n in paths_seen.items():
        if n > 1:
            out.fail(f"C10.{tag}_duplicate_zone_path", f"{n} zones share the path {'/'.join(p)}")

    def L(p):
        return [s for s, rp in resolved if rp[: len(p)] == p]

    def E(p):
        return [s for s, rp in resolved if rp == p]

    label_paths = set()
    for _, rp in resolved:
        for k in range(0, len(rp) + 1):
            label_paths.add(rp[:k])
    for p in sorted(label_paths):
        if p not in zones:
            out.fail(f"C10.{tag}_zone_missing", f"no zone at path {'/'.join(p) or '<root>'} although {len(L(p))} stream(s) are labelled into it")
    synth_children = {}
    for p, z in zones.items():
        exp = L(p)
        got_h = Counter(okey(o) for o in z.hot_streams)
        got_c = Counter(okey(o) for o in z.cold_streams)
        if p in label_paths:
            want_h = Counter(skey(s) for s in exp if is_hot(s))
            want_c = Counter(skey(s) for s in exp if not is_hot(s))
            if got_h != want_h or got_c != want_c:
                missing = (want_h - got_h) + (want_c - got_c)
                extra = (got_h - want_h) + (got_c - want_c)
                out.fail(
                    f"C10.{tag}_zone_membership",
                    f"zone {'/'.join(p) or '<root>'}: {sum((want_h + want_c).values())} stream(s) labelled into it, holds {sum((got_h + got_c).values())}; "
                    f"missing {dict(missing)} extra/duplicated {dict(extra)}",
                )
        else:
            synth_children.setdefault(p[:-1], []).append((p, got_h + got_c))
            if user_tree and (got_h or got_c):
                out.fail(f"C10.{tag}_zone_membership", f"zone {'/'.join(p)} of the user tree has no labelled stream but holds {dict(got_h + got_c)}")
    if not user_tree:
        for q, kids in synth_children.items():
            want = Counter(skey(s) for s in E(q))
            tot = Counter()
            for p, held in kids:
                if sum(held.values()) != 1:
                    out.fail(f"C10.{tag}_unit_zone_partition", f"unit-operation zone {'/'.join(p)} holds {sum(held.values())} streams {dict(held)} (expected exactly one of the streams labelled {'/'.join(q)})")
                tot += held
            if tot != want:
                out.fail(f"C10.{tag}_unit_zone_partition", f"unit-operation zones under {'/'.join(q) or '<root>'} hold {dict(tot)} but the streams labelled exactly there are {dict(want)}")
        for q in label_paths:
            if E(q) and q not in synth_children and q in zones:
                out.fail(f"C10.{tag}_unit_zone_partition", f"streams labelled exactly {'/'.join(q)} have no unit-operation zone beneath it")
    # utilities: independent copies with equal values
    ids = Counter()
    ref = None
    for p, z in zones.items():
        vals = [(u.name, round(u.t_supply, 6), round(u.t_target, 6), round(u.dt_cont, 6)) for u in list(z.hot_utilities) + list(z.cold_utilities)]
        if ref is None:
            ref = vals
        elif Counter(vals) != Counter(ref):
            out.fail(f"C10.{tag}_utility_values", f"zone {'/'.join(p)} utilities {vals} differ from the root's {ref}")
        for u in list(z.hot_utilities) + list(z.cold_utilities):
            ids[id(u)] += 1
    if any(n > 1 for n in ids.values()):
        out.fail(f"C10.{tag}_utility_shared", "a utility object is shared between zones (or listed twice)")


def eval_case(case) -> Outcome:
    from OpenPinch.lib.schema import TargetInput
    from OpenPinch.analysis.data_preparation import prepare_problem

    out = Outcome()
    streams = case["streams"]
    user_tree = case.get("zone_tree") is not None
    if user_tree:
        resolved = [(s, tuple(rp)) for s, rp in zip(streams, case["resolved"]) if rp is not None]
        for c in case.get("tree_classes", []):
            out.labels.add(c)
            out.rc.add(c)
        out.labels.add("user-tree")
    else:
        resolved = [(s, S.label_path(s["zone"])) for s in streams if s["zone"]]
        out.labels.add("synthesised-tree")
        if any("/" in s["zone"] and "/".join(S.label_path(s["zone"])) != s["zone"] for s in streams):
            out.labels.add("synthesised-tree+non-canonical-spelling")
    paths = [rp for _, rp in resolved]
    cl = label_classes(paths)
    out.labels |= cl
    if not user_tree:
        out.rc |= cl
    if any(not s["zone"] for s in streams):
        out.labels.add("empty-label")
    names = Counter(s["name"] for s in streams)
    if any(n > 1 for n in names.values()):
        out.labels.add("duplicate-stream-names")
    comps = Counter(c for p in set(paths) for c in set(p))
    out.nontrivial = len(set(paths)) >= 2 and any(n >= 2 for n in comps.values())
    payload = {k: copy.deepcopy(v) for k, v in case.items() if k in ("streams", "utilities", "zone_tree")}

    def prep():
        req = TargetInput.model_validate(payload)
        return prepare_problem(project_name="Site", streams=req.streams, utilities=req.utilities, options=req.options, zone_tree=req.zone_tree)

    ok, master = call_sut(prep)
    if not ok:
        out.fail("C10.sut_exception:" + master, f"prepare_problem raised {master}: {call_sut.last_message}")
        return out
    check_tree(out, master, case, resolved, "prep", user_tree)
    if case.get("run_service"):
        ok, res = S.run_service(case)
        if not ok:
            out.fail("C10.sut_exception:" + res, f"service raised {res}: {call_sut.last_message}")
        else:
            check_tree(out, res[1], case, resolved, "service", user_tree)
    return out


# --------------------------------------------------------------------------- generators
COMP = ["A", "B", "C", "BA", "O1", "O2", "Site", "Plant A", "X"]  # "BA" / "Plant A" end with the text "A": string suffix, not a path suffix


@st.composite
def hostile_labels(draw):
    n = draw(st.integers(1, 5))
    labels = []
    for _ in range(n):
        depth = draw(st.sampled_from([1, 1, 2, 2, 3, 4]))
        comps = [draw(st.sampled_from(COMP[:4] if draw(st.integers(0, 3)) else COMP)) for _ in range(depth)]
        labels.append("/".join(comps))
    # encourage suffix / prefix pairs
    if labels and draw(st.booleans()):
        base = draw(st.sampled_from(labels))
        parts = base.split("/")
        if len(parts) >= 2 and draw(st.booleans()):
            labels.append("/".join(parts[draw(st.integers(1, len(parts) - 1)):]))
        else:
            labels.append(base + "/" + draw(st.sampled_from(COMP[:5])))
    return sorted(set(labels))


def _streams(draw, labels, n, allow_empty=True):
    pal = [20.0, 40.0, 60.0, 80.0, 100.0, 150.0]
    names = st.sampled_from(["S1", "S1", "S2", "S3", "H1", "C1"])
    out = []
    for i in range(n):
        lab = draw(st.sampled_from(labels)) if i >= len(labels) else labels[i]
        s = draw(G.stream(pal, [lab], names=names, iso_share=0.1, dts=st.sampled_from([0.0, 5.0, 10.0]), thirds=False))
        s["heat_flow"] = float(draw(st.integers(1, 50)) * 10)
        out.append(s)
    if allow_empty and draw(st.integers(0, 5)) == 0:
        s = draw(G.stream(pal, [""], names=names, iso_share=0.0, thirds=False))
        out.append(s)
    return out


@st.composite
def synthesised_case(draw):
    labels = draw(hostile_labels())
    n = draw(st.integers(len(labels), len(labels) + 4))
    ss = _streams(draw, labels, n)
    # path labels in a non-canonical spelling, stream by stream (the documented tree synthesis trims components and drops
    # empty ones, so two spellings of one path name the same zone); flat labels are left as they are
    for s in ss:
        if "/" in s["zone"]:
            spell = draw(st.sampled_from(["plain", "plain", "plain", "plain", "blanks", "lead-trail", "trailing-slash", "leading-slash", "double-slash"]))
            lab = s["zone"]
            if spell == "blanks":
                lab = " / ".join(lab.split("/"))
            elif spell == "lead-trail":
                lab = " " + lab + " "
            elif spell == "trailing-slash":
                lab = lab + "/"
            elif spell == "leading-slash":
                lab = "/" + lab
            elif spell == "double-slash":
                lab = lab.replace("/", "//", 1)
            s["zone"] = lab
    us = draw(G.utilities([20.0, 100.0, 200.0], thirds=False))
    return {"streams": draw(st.permutations(ss)), "utilities": us, "run_service": draw(st.booleans())}


@st.composite
def user_tree_case(draw):
    """Tree built from a label set; labels given as full / relative / leaf-only paths."""
    labels = draw(hostile_labels())
    paths = sorted({S.label_path(l) for l in labels})
    root = {"name": "Site", "type": "Site", "children": []}
    nodes = {(): root}
    for p in paths:
        for k in range(1, len(p) + 1):
            if p[:k] not in nodes:
                node = {"name": p[k - 1], "type": draw(st.sampled_from(["Process Zone", "Process Zone", "Zone", "Sub-Zone"])), "children": []}
                nodes[p[:k]] = node
                nodes[p[: k - 1]]["children"].append(node)
    all_paths = [p for p in nodes if p]
    classes = set()
    n = draw(st.integers(len(paths), len(paths) + 3))
    streams, resolved = [], []
    base = _streams(draw, ["x"], n, allow_empty=False)
    # half of the trees carry streams on leaf nodes only (labels on inner nodes are known finding C10-F2 and hide the rest)
    leaves = [p for p in paths if not any(q != p and q[: len(p)] == p for q in all_paths)]
    if draw(st.booleans()) and leaves:
        paths = leaves
    for i, s in enumerate(base):
        p = paths[i] if i < len(paths) else draw(st.sampled_from(paths))
        if any(q != p and q[: len(p)] == p for q in all_paths):
            classes.add("label-on-non-leaf")
        form = draw(st.sampled_from(["full", "relative", "leaf"]))
        full = ("Site",) + p
        if form == "full":
            lab = "/".join(full)
        elif form == "relative":
            lab = "/".join(p)
        else:
            lab = p[-1]
        # how many nodes (incl. root) end with these components?
        comps = tuple(lab.split("/"))
        cands = [q for q in [("Site",)] + [("Site",) + a for a in all_paths] if q[-len(comps):] == comps]
        fulls = {("Site",) + a for a in all_paths} | {("Site",)}
        if ((comps in fulls and comps != full) or (comps not in fulls and len(cands) != 1)) and draw(st.integers(0, 3)) > 0:
            # an ambiguous short form (known finding C10-F3) is kept in a quarter of the cases only
            lab = "/".join(full)
            comps = tuple(lab.split("/"))
            cands = [full]
        if comps in fulls:
            if comps != full:
                classes.add("ambiguous-suffix")  # the text is the full path of a different node
        elif len(cands) != 1:
            classes.add("ambiguous-suffix")
        if comps == ("Site",):
            classes.add("root-label")
        # the same label in a non-canonical spelling (blanks around the separators, trailing or doubled separator)
        spell = draw(st.sampled_from(["plain", "plain", "plain", "blanks", "lead-trail", "trailing-slash", "double-slash"]))
        if spell == "blanks":
            lab = " / ".join(lab.split("/"))
        elif spell == "lead-trail":
            lab = " " + lab + " "
        elif spell == "trailing-slash":
            lab = lab + "/"
        elif spell == "double-slash" and "/" in lab:
            lab = lab.replace("/", "//", 1)
        if spell != "plain":
            classes.add("non-canonical-spelling")
        s["zone"] = lab
        streams.append(s)
        resolved.append(list(p))
    us = draw(G.utilities([20.0, 100.0, 200.0], thirds=False))

    def clean(node):
        return {"name": node["name"], "type": node["type"], "children": [clean(c) for c in node["children"]] or None}

    return {"streams": streams, "utilities": us, "zone_tree": clean(root), "resolved": resolved, "tree_classes": sorted(classes), "run_service": draw(st.booleans())}


def strategy(tier):
    return st.one_of(synthesised_case(), synthesised_case(), user_tree_case(), user_tree_case())


PARTS = [Part("trees", eval_case, {"quick": 3000, "thorough": 100000}, strategy=strategy, min_nontrivial={"quick": 600, "thorough": 15000})]
MIN_SHARE = {"trees": {"suffix-pair": 0.1, "prefix-pair": 0.1, "o-name-clash": 0.1, "user-tree": 0.1, "duplicate-stream-names": 0.2}}
