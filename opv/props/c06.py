"""C06  Reported pinch temperatures are where the exact cascade is pinched."""
from __future__ import annotations

from fractions import Fraction as Fr

from hypothesis import strategies as st

from ..core.types import Outcome, Part
from ..gen import problems as G
from ..gen import service as S
from ..ref import cascade as C
from . import _pipeline as P

PID = "C06"
RULE = (
    "problems (1-8 streams, thorough 1-12) including matched hot/cold bands of equal CP (zero-residual runs, multiple pinches), balanced "
    "problems, thresholds on either side, only-hot / only-cold sets, utilities beyond the process range (extra table rows); oracle = exact "
    "zero set Z of the rational residual; with Z' = Z where the run touching a utility-free end of the range is replaced by its process-side "
    "end point, the reported pair (from the target attributes and from the record's temp_pinch) must be (max Z', min Z'). non-trivial = "
    ">= 2 distinct exact zeros or a threshold / balanced shape; distinct by canonical JSON."
)
ASSUMPTIONS = [
    "cases whose exact residual has a non-zero value below 1e-4 at a breakpoint are skipped and counted (the code's absolute 1e-6 zero test could legitimately disagree)",
    "temperatures on the 1e-3 K grid; reported pinches compared within 1e-6 K",
]


def expected_pinches(c: C.Cascade):
    runs = C.zero_set(c)
    if not runs:
        return None
    top, bot = c.T[0], c.T[-1]
    if len(runs) == 1 and runs[0] == (top, bot):
        return "all-zero"
    pts = []
    for hi, lo in runs:
        if hi == top and c.Qh == 0 and lo == bot and c.Qc == 0:
            return "all-zero"
        if hi == top and c.Qh == 0:
            pts.append(lo)
        elif lo == bot and c.Qc == 0:
            pts.append(hi)
        else:
            pts += [hi, lo]
    return max(pts), min(pts)


def eval_case(case) -> Outcome:
    out = Outcome()
    an = P.Analysis(case, out, "C06")
    if not an.ok:
        return out
    P.classify_site(out, an)
    for path, zone, c in an.zones:
        t = an.target(zone, S.DI)
        if t is None or not c.T:
            continue
        where = "/".join(path) or "<site>"
        if any(0 < r < Fr(1, 10000) for r in c.R):
            if path == ():
                out.skip = "ambiguous-zero"
            continue
        exp = expected_pinches(c)
        if exp == "all-zero" or exp is None:
            out.labels.add("residual-identically-zero")
            continue
        eh, ec = float(exp[0]), float(exp[1])
        runs = C.zero_set(c)
        nzeros = len({x for r in runs for x in r})
        if path == ():
            if nzeros >= 2:
                out.labels.add("zeros>=2")
                out.nontrivial = True
            if any(hi != lo for hi, lo in runs):
                out.labels.add("zero-run-interval")
            if c.hot and c.cold and ((c.Qh == 0) or (c.Qc == 0)):
                out.nontrivial = True
        gh, gc = t.hot_pinch, t.cold_pinch
        if gh is None or gc is None:
            out.fail("C06.absent", f"{where}: pinch reported absent ({gh!r}, {gc!r}) but the exact residual is zero at {[(float(a), float(b)) for a, b in runs]}")
            continue
        if abs(float(gh) - eh) > 1e-6:
            out.fail("C06.hot_pinch", f"{where}: hot pinch {float(gh)!r} but exact zero set {[(float(a), float(b)) for a, b in runs]} gives {eh!r} (Qh={float(c.Qh)}, Qc={float(c.Qc)})")
        if abs(float(gc) - ec) > 1e-6:
            out.fail("C06.cold_pinch", f"{where}: cold pinch {float(gc)!r} but exact zero set {[(float(a), float(b)) for a, b in runs]} gives {ec!r} (Qh={float(c.Qh)}, Qc={float(c.Qc)})")
        if float(gh) < float(gc) - 1e-9:
            out.fail("C06.order", f"{where}: hot pinch {float(gh)!r} colder than cold pinch {float(gc)!r}")
        # the serialised record
        key = f"{zone.name}/{S.DI}"
        rs = an.records.get(key, [])
        if len(rs) == 1:
            tp = rs[0].temp_pinch
            rc, rh = S.val(tp.cold_temp), S.val(tp.hot_temp)
            if rc is None or abs(rc - ec) > 1e-6:
                out.fail("C06.record_cold", f"record {key}: temp_pinch.cold_temp={rc!r} but exact {ec!r}")
            if abs(eh - ec) > 1e-6:
                if rh is None or abs(rh - eh) > 1e-6:
                    out.fail("C06.record_hot", f"record {key}: temp_pinch.hot_temp={rh!r} but exact {eh!r}")
            elif rh is not None and abs(rh - eh) > 1e-6:
                out.fail("C06.record_hot", f"record {key}: temp_pinch.hot_temp={rh!r} but exact {eh!r}")
    return out


@st.composite
def banded(draw, tier, base=True):
    """A problem with one or two matched hot/cold bands (equal duty on the same shifted range)."""
    mx = 6 if tier == "quick" else 10
    if base:
        case = draw(G.problem(min_streams=1, max_streams=mx, thirds=False))
        zone = case["streams"][0]["zone"]
    else:
        case = {"streams": [], "utilities": draw(G.utilities([100.0, 200.0, 50.0]))}
        zone = "P1"
    for _ in range(draw(st.integers(1, 2))):
        a = draw(st.integers(-40, 400)) * 1.0
        span = draw(st.sampled_from([5.0, 10.0, 20.0, 50.0, 0.4, 0.3, 0.04, 0.4, 0.04]))  # narrow bands: two pinches that coincide at 0 or 1 decimals
        dth, dtc = draw(st.sampled_from([0.0, 2.5, 5.0])), draw(st.sampled_from([0.0, 2.5, 5.0]))
        q = draw(G.duty())
        off = draw(st.sampled_from([0.0, 0.0, 30.0, 80.0]))  # 0: matched band; > 0: the cold twin lies below (surplus cascades down)
        if draw(st.booleans()):
            # the hot side of the band is two parallel streams (0.7 + 0.1 vs 0.8): the residual closes on a float residue, not on 0.0
            f = draw(st.sampled_from([0.875, 0.7, 0.3, 0.1, 0.6]))
            case["streams"].append({"zone": zone, "name": "Hb1", "t_supply": round(a + span + dth, 6), "t_target": round(a + dth, 6), "heat_flow": round(q * f, 6), "dt_cont": dth, "htc": 1.0})
            case["streams"].append({"zone": zone, "name": "Hb2", "t_supply": round(a + span + dth, 6), "t_target": round(a + dth, 6), "heat_flow": round(q - round(q * f, 6), 6), "dt_cont": dth, "htc": 1.0})
            # the cold twin carries the exact decimal sum (0.7 + 0.1 -> 0.8), which the float sum of the two CPs misses by an ulp
            q = float(Fr(repr(round(q * f, 6))) + Fr(repr(round(q - round(q * f, 6), 6))))
        else:
            case["streams"].append({"zone": zone, "name": "Hb", "t_supply": round(a + span + dth, 6), "t_target": round(a + dth, 6), "heat_flow": q, "dt_cont": dth, "htc": 1.0})
        case["streams"].append({"zone": zone, "name": "Cb", "t_supply": round(a - off - dtc, 6), "t_target": round(a - off + span - dtc, 6), "heat_flow": q, "dt_cont": dtc, "htc": 1.0})
    narrow = any(s["name"] == "Cb" and abs(s["t_target"] - s["t_supply"]) < 1.0 for s in case["streams"])
    if "options" not in case and draw(st.integers(0, 3)) < (3 if narrow else 1):
        # the reporting precision is a documented option; it must not decide which pinches are reported
        case["options"] = {"DECIMAL_PLACES": draw(st.sampled_from([0, 0, 1, 3]))}
    return case


@st.composite
def narrow_double_pinch(draw, tier):
    """Two pinches a fraction of a kelvin apart (a source exactly balanced by a sink directly below it, between a sink above
    and a source below), optionally with the reporting precision set to 0 or 1 decimals: both pinches are zeros of the
    residual and both must be reported, however coarse the reporting precision."""
    dt = draw(st.sampled_from([0.0, 5.0]))
    x = float(draw(st.integers(20, 300)))
    half = draw(st.sampled_from([0.2, 0.2, 0.02, 0.15, 2.0]))
    g0, g3 = float(draw(st.sampled_from([10.0, 25.0, 60.0]))), float(draw(st.sampled_from([10.0, 30.0])))
    T = [round(x + 2 * half + g0, 6), round(x + 2 * half, 6), round(x + half, 6), x, round(x - g3, 6)]
    q0, h, q3 = float(draw(st.sampled_from([50.0, 120.0]))), float(draw(st.sampled_from([4.0, 80.0]))), float(draw(st.sampled_from([30.0, 90.0])))
    hot = lambda nm, hi, lo, q: {"zone": "P1", "name": nm, "t_supply": round(hi + dt, 6), "t_target": round(lo + dt, 6), "heat_flow": q, "dt_cont": dt, "htc": 1.0}
    cold = lambda nm, hi, lo, q: {"zone": "P1", "name": nm, "t_supply": round(lo - dt, 6), "t_target": round(hi - dt, 6), "heat_flow": q, "dt_cont": dt, "htc": 1.0}
    ss = [cold("C0", T[0], T[1], q0), hot("H1", T[1], T[2], h), cold("C2", T[2], T[3], h), hot("H3", T[3], T[4], q3)]
    case = {"streams": draw(st.permutations(ss)), "utilities": draw(st.sampled_from([[], []])) or draw(G.utilities([T[0] + 40.0, T[4] - 40.0], thirds=False)) if draw(st.booleans()) else []}
    if draw(st.integers(0, 3)) > 0:
        case["options"] = {"DECIMAL_PLACES": draw(st.sampled_from([0, 0, 1, 3]))}
    return case


def strategy(tier):
    mx = 8 if tier == "quick" else 12
    return G.with_options(st.one_of(
        banded(tier),
        banded(tier, base=False),
        narrow_double_pinch(tier),
        G.problem(min_streams=2, max_streams=mx, shape="mixed"),
        G.problem(min_streams=2, max_streams=mx, shape="mixed", multi_zone=True),
        G.problem(max_streams=mx),
        G.problem(max_streams=4, with_utilities=False),
    ))


PARTS = [Part("service", eval_case, {"quick": 1500, "thorough": 40000}, strategy=strategy, min_nontrivial={"quick": 300, "thorough": 8000})]
MIN_SHARE = {"service": {"zeros>=2": 0.1, "zero-run-interval": 0.05, "threshold": 0.08, "balanced": 0.05}}
