"""C11  Analysis is a pure function of its input (stateful, fork-based pristine-process oracle)."""
from __future__ import annotations

import copy
import json
import math
import os
import shutil
import sys
import tempfile
import types

from hypothesis import strategies as st
from hypothesis.stateful import initialize, rule

from ..core import forksut
from ..core.machine import LoggedMachine
from ..core.types import Fail, Outcome, Part
from ..gen import problems as G
from ..gen import service as S

PID = "C11"
RULE = (
    "RuleBasedStateMachine: a pool of 2-4 generated problems (different zone names and sizes) and a history of up to 6 (thorough 10) calls: "
    "pinch_analysis_service with the pool's dict, with a dict whose lists hold schema instances, with a validated model built once and reused, with a fresh model (some problems carry a user zone tree in non-canonical spelling); PinchProblem load / "
    "target / target again / export. The driver process imports OpenPinch but never calls it. The whole history runs in one forked child; "
    "the expected result of call k comes from a one-shot child forked from the same pristine driver that executes only that call. "
    "invariants after every call: result dump (targets, utilities, graph keys and points, or exception type and message) identical to the "
    "one-shot result; the caller's input deep-equal to its snapshot before the call; dumps of all earlier results unchanged; canonical "
    "fingerprint of OpenPinch.* module state (globals, class attributes, function defaults) unchanged. non-trivial = history of >= 2 calls "
    "over >= 2 different problems, or a reused model object; distinct by canonical JSON of (pool, history)."
)
ASSUMPTIONS = [
    "a child forked from a driver that imported OpenPinch but never called it is equivalent to a fresh interpreter after import (validated in the thorough tier on a sample of real fresh interpreters)",
    "module state outside OpenPinch.* (CoolProp, pandas, pint caches) is outside the statement and not fingerprinted",
    "timing / logging globals are excluded from the fingerprint by name only if they hold wall-clock values (none do at the pinned commit)",
]


# ------------------------------------------------------------------------ code that runs in children
def _dump_result(res):
    if isinstance(res, tuple):
        res = res[0]
    if not hasattr(res, "model_dump"):
        return {"not-a-result-model": type(res).__name__}  # compared like any other result: a fresh process returns a model
    d = res.model_dump()
    return json.loads(json.dumps(d, default=repr, sort_keys=True))


def _canon(o, depth=0, seen=None):
    import numpy as np

    if seen is None:
        seen = set()
    if o is None or isinstance(o, (bool, int, str)):
        return o
    if isinstance(o, float):
        return o if math.isfinite(o) else repr(o)
    if isinstance(o, (np.generic,)):
        return _canon(o.item(), depth, seen)
    if isinstance(o, np.ndarray):
        return ["ndarray", o.shape, o.tolist() if o.size <= 200 else repr(o.sum())]
    if depth > 5:
        return f"<{type(o).__name__}>"
    if id(o) in seen:
        return f"<cycle {type(o).__name__}>"
    if isinstance(o, (types.ModuleType, types.FunctionType, types.BuiltinFunctionType, type, types.MethodType, property, staticmethod, classmethod)):
        return f"<{type(o).__name__} {getattr(o, '__qualname__', getattr(o, '__name__', ''))}>"
    seen = seen | {id(o)}
    if isinstance(o, dict):
        return {"dict": sorted(((repr(k), _canon(v, depth + 1, seen)) for k, v in o.items()), key=lambda kv: kv[0])}
    if isinstance(o, (list, tuple)):
        return [type(o).__name__] + [_canon(v, depth + 1, seen) for v in o]
    if isinstance(o, (set, frozenset)):
        return ["set"] + sorted(repr(_canon(v, depth + 1, seen)) for v in o)
    if hasattr(o, "__dict__"):
        return {"obj": type(o).__name__, "vars": _canon(vars(o), depth + 1, seen)}
    return f"<{type(o).__name__} {repr(o)[:80]}>"


def module_fingerprint():
    """Canonical fingerprint of every OpenPinch.* module: data globals, class data attributes, function defaults."""
    fp = {}
    for name, mod in sorted(sys.modules.items()):
        if not (name == "OpenPinch" or name.startswith("OpenPinch.")) or mod is None:
            continue
        entry = {}
        for k, v in sorted(vars(mod).items()):
            if k.startswith("__"):
                continue
            if isinstance(v, types.ModuleType):
                continue
            if isinstance(v, types.FunctionType):
                if getattr(v, "__module__", None) == name:
                    entry[f"def {k}"] = _canon([v.__defaults__, v.__kwdefaults__])
                continue
            if isinstance(v, type):
                if getattr(v, "__module__", None) == name:
                    attrs = {}
                    for ak, av in sorted(vars(v).items()):
                        if ak.startswith("__"):
                            continue
                        if isinstance(av, (types.FunctionType, staticmethod, classmethod)):
                            f = av if isinstance(av, types.FunctionType) else av.__func__
                            attrs[f"def {ak}"] = _canon([f.__defaults__, f.__kwdefaults__])
                        elif isinstance(av, property):
                            continue
                        else:
                            attrs[ak] = _canon(av)
                    entry[f"class {k}"] = attrs
                continue
            entry[k] = _canon(v)
        fp[name] = entry
    return json.dumps(fp, sort_keys=True, default=repr)


def fingerprint_diff(a, b):
    A, B = json.loads(a), json.loads(b)
    out = []
    for m in sorted(set(A) | set(B)):
        ea, eb = A.get(m, {}), B.get(m, {})
        for k in sorted(set(ea) | set(eb)):
            if ea.get(k) != eb.get(k):
                out.append(f"{m}.{k}")
    return out


class Runner:
    """Executes operations against real OpenPinch objects (inside a child only)."""

    def __init__(self, pool):
        self.pool = copy.deepcopy(pool)  # problem dicts owned by the 'caller'
        self.models = {}
        self.pp = None
        self.pp_model = None
        self.pp_idx = None
        self.tmp = None

    def model(self, i):
        from OpenPinch.lib.schema import TargetInput

        if i not in self.models:
            self.models[i] = TargetInput.model_validate(copy.deepcopy(self.pool[i]))
        return self.models[i]

    def call(self, op):
        """Returns (result object or exception text, input object, input snapshot before)."""
        from OpenPinch.classes.pinch_problem import PinchProblem
        from OpenPinch.lib.schema import TargetInput
        from OpenPinch.main import pinch_analysis_service

        kind = op["op"]
        inp, snap = None, None
        try:
            if kind == "service_dict":
                inp = self.pool[op["i"]]
                snap = copy.deepcopy(inp)
                res = pinch_analysis_service(inp, "Site")
            elif kind == "service_dict_of_models":
                from OpenPinch.lib.schema import StreamSchema, UtilitySchema

                if ("dm", op["i"]) not in self.models:
                    src = copy.deepcopy(self.pool[op["i"]])
                    src["streams"] = [StreamSchema.model_validate(x) for x in src["streams"]]
                    src["utilities"] = [UtilitySchema.model_validate(x) for x in src["utilities"]]
                    self.models[("dm", op["i"])] = src
                inp = self.models[("dm", op["i"])]
                snap = _input_now(inp)
                res = pinch_analysis_service(inp, "Site")
            elif kind == "service_model":
                inp = self.model(op["i"])
                snap = inp.model_dump()
                res = pinch_analysis_service(inp, "Site")
            elif kind == "service_fresh_model":
                inp = TargetInput.model_validate(copy.deepcopy(self.pool[op["i"]]))
                snap = inp.model_dump()
                res = pinch_analysis_service(inp, "Site")
            elif kind == "pp_load_target":
                inp = self.pool[op["i"]]
                snap = copy.deepcopy(inp)
                self.pp = PinchProblem.from_json(inp)
                self.pp_idx = op["i"]
                res = self.pp.target()
            elif kind == "pp_reload_target":
                # the same wrapper object is given another problem: it must answer for that problem, not from its cache
                inp = self.pool[op["i"]]
                snap = copy.deepcopy(inp)
                if self.pp is None:
                    self.pp = PinchProblem()
                self.pp.load(TargetInput.model_validate(copy.deepcopy(inp)))
                self.pp_idx = op["i"]
                res = self.pp.target()
            elif kind == "pp_edit_model_and_reload":
                # the caller keeps ONE model object, rewrites it in place into another problem and loads it again
                inp = self.pool[op["i"]]
                snap = copy.deepcopy(inp)
                fresh = TargetInput.model_validate(copy.deepcopy(inp))
                if self.pp is None:
                    self.pp = PinchProblem()
                if getattr(self, "pp_model", None) is None:
                    self.pp_model = fresh
                else:
                    for field in type(fresh).model_fields:
                        setattr(self.pp_model, field, getattr(fresh, field))
                self.pp.load(self.pp_model)
                self.pp_idx = op["i"]
                res = self.pp.target()
            elif kind == "pp_target_again":
                inp = self.pool[self.pp_idx]
                snap = copy.deepcopy(inp)
                res = self.pp.target()
            elif kind == "pp_export":
                inp = self.pool[self.pp_idx]
                snap = copy.deepcopy(inp)
                self.tmp = self.tmp or tempfile.mkdtemp(prefix="opv_c11_")
                self.pp.export_to_Excel(self.tmp)
                res = self.pp.target()
            else:
                raise ValueError(kind)
            return ("ok", res), inp, snap
        except Exception as e:  # noqa: BLE001 - an exception is a result too; it must be the same in both processes
            return ("exc", f"{type(e).__name__}: {str(e)[:300]}"), inp, snap

    def cleanup(self):
        if self.tmp:
            shutil.rmtree(self.tmp, ignore_errors=True)


def _input_now(inp):
    if hasattr(inp, "model_dump"):
        return inp.model_dump()
    if isinstance(inp, dict):
        return {k: _input_now(v) for k, v in inp.items()}
    if isinstance(inp, list):
        return [_input_now(v) for v in inp]
    return copy.deepcopy(inp)


def history_child(pool, ops):
    """Runs the whole history; returns per-step observations."""
    run = Runner(pool)
    steps = []
    earlier = []  # (result object, dump at the time)
    try:
        for op in ops:
            fp0 = module_fingerprint()
            (tag, res), inp, snap = run.call(op)
            fp1 = module_fingerprint()
            dump = _dump_result(res) if tag == "ok" else {"exception": res}
            obs = {"dump": dump, "input_changed": None, "earlier_changed": [], "module_changed": fingerprint_diff(fp0, fp1) if fp0 != fp1 else []}
            if inp is not None:
                now = _input_now(inp)
                if now != snap:
                    obs["input_changed"] = _first_diff(snap, now)
            for k, (robj, rdump) in enumerate(earlier):
                if robj is not res and _dump_result(robj) != rdump:
                    obs["earlier_changed"].append(k)
            if tag == "ok":
                robj = res[0] if isinstance(res, tuple) else res
                if all(robj is not e[0] for e in earlier):
                    earlier.append((robj, dump))
            steps.append(obs)
    finally:
        run.cleanup()
    return steps


def oneshot_child(pool, op, prior_pp):
    """Runs only this call (plus the wrapper calls it depends on) in a pristine process."""
    run = Runner(pool)
    try:
        if op["op"] in ("pp_target_again", "pp_export"):
            run.call({"op": "pp_load_target", "i": prior_pp})
        (tag, res), _, _ = run.call(op)
        return _dump_result(res) if tag == "ok" else {"exception": res}
    finally:
        run.cleanup()


def _first_diff(a, b, path=""):
    if type(a) != type(b):
        return f"{path}: {a!r} -> {b!r}"
    if isinstance(a, dict):
        for k in sorted(set(a) | set(b), key=repr):
            if a.get(k) != b.get(k):
                return _first_diff(a.get(k), b.get(k), f"{path}.{k}")
    elif isinstance(a, list):
        if len(a) != len(b):
            return f"{path}: length {len(a)} -> {len(b)}"
        for i, (x, y) in enumerate(zip(a, b)):
            if x != y:
                return _first_diff(x, y, f"{path}[{i}]")
    return f"{path}: {a!r} -> {b!r}"


# ------------------------------------------------------------------------------------- evaluation
def _import_only():
    """The driver imports the library (so that children are cheap forks) but never calls into it."""
    import OpenPinch  # noqa: F401
    import OpenPinch.classes.pinch_problem  # noqa: F401
    import OpenPinch.main  # noqa: F401
    import OpenPinch.utils.export  # noqa: F401


def evaluate(case) -> Outcome:
    out = Outcome()
    pool, ops = case["init"]["pool"], case["ops"]
    finalize_history(out, case["init"], ops)
    if not ops:
        return out
    _import_only()
    steps = forksut.run_in_child(lambda: history_child(pool, ops))
    pp_idx = None
    for k, (op, obs) in enumerate(zip(ops, steps)):
        if op["op"] in ("pp_load_target", "pp_reload_target", "pp_edit_model_and_reload"):
            pp_idx = op["i"]
        want = forksut.run_in_child(lambda: oneshot_child(pool, op, pp_idx))
        ctx = f"call {k} ({op['op']}{'' if 'i' not in op else ' #' + str(op['i'])}) after {[o['op'] + ('' if 'i' not in o else '#' + str(o['i'])) for o in ops[:k]]}"
        if obs["dump"] != want:
            d = _first_diff(want, obs["dump"])
            aid = "C11.result_depends_on_history"
            if isinstance(want, dict) and isinstance(obs["dump"], dict) and sorted((want.get("graphs") or {}).keys()) != sorted((obs["dump"].get("graphs") or {}).keys()) and {k2: v for k2, v in want.items() if k2 != "graphs"} == {k2: v for k2, v in obs["dump"].items() if k2 != "graphs"}:
                aid = "C11.graph_entries_depend_on_history"
            out.fail(aid, f"{ctx}: result differs from the one-shot pristine-process result: {d[:300]}")
        if obs["input_changed"]:
            out.fail("C11.input_mutated", f"{ctx}: the caller's input changed: {obs['input_changed'][:300]}")
        if obs["earlier_changed"]:
            out.fail("C11.earlier_result_altered", f"{ctx}: results returned by calls {obs['earlier_changed']} changed afterwards")
        if obs["module_changed"]:
            out.fail("C11.module_state_changed", f"{ctx}: module-level state differs after the call: {obs['module_changed'][:6]}")
        if out.fails:
            break
    return out


def finalize_history(out, init, ops):
    idx = {o["i"] for o in ops if "i" in o}
    for o in ops:
        out.labels.add("op:" + o["op"])
    reused = sum(1 for o in ops if o["op"] == "service_model")
    models = [(o["op"], o["i"]) for o in ops if o["op"] in ("service_model", "service_dict_of_models")]
    if any("zone_tree" in p for p in init["pool"]):
        out.labels.add("pool-has-user-zone-tree")
    if len(models) != len(set(models)):
        out.labels.add("model-object-reused")
    out.nontrivial = (len(ops) >= 2 and len(idx) >= 2) or len(models) != len(set(models))
    out.labels.add(f"calls={min(len(ops), 6)}")


# -------------------------------------------------------------------------------------- generator
ZONESETS = [["P1"], ["Q1", "Q2"], ["Unit A"], ["R1", "R2", "R3"], ["A/X", "A/Y"]]


@st.composite
def pool_strategy(draw):
    n = draw(st.integers(2, 4))
    pool = []
    for k in range(n):
        pal = draw(G.palette(thirds=False))
        zones = ZONESETS[(k + draw(st.integers(0, 4))) % len(ZONESETS)]
        ss = [draw(G.stream(pal, zones, iso_share=0.1, thirds=False)) for _ in range(draw(st.integers(1, 5)))]
        us = draw(G.utilities(pal, 2, 2, 1, thirds=False))
        p = {"streams": ss, "utilities": us}
        if draw(st.integers(0, 2)) == 0:
            p["options"] = draw(st.sampled_from([{"DO_VERTICAL_GCC": True}, {"DO_BALANCED_CC": False}, {"DT_CONT": 10.0}, {"DO_AREA_TARGETING": True, "DT_CONT": 5.0}, {"REFRIGERANTS": "ammonia"}, {"REFRIGERANTS": "water,R134a", "DT_CONT": 7.5}, {"UTILITY_PRICE": 99.0, "HTC": 2.0}, {"DECIMAL_PLACES": 0}, {"DECIMAL_PLACES": 4, "DT_PHASE_CHANGE": 0.5}, {"T_ENV": 25.0, "DT_ENV_CONT": 5.0, "P_ENV": 95.0}, {"ANNUAL_OP_TIME": 6000, "DISCOUNT_RATE": 0.1, "SERV_LIFE": 10}, {"N_COND": 2, "N_EVAP": 1, "ETA_COMP": 0.6, "HP_LOAD_FRACTION": 0.5}]))
        if all("/" not in z for z in zones) and draw(st.integers(0, 2)) == 0:
            # a user zone tree in its non-canonical spelling (alias types), optionally with a stream labelled with the root name
            alias = draw(st.sampled_from(["Zone", "Process Zone", "Sub-Zone"]))
            p["zone_tree"] = {"name": "Site", "type": draw(st.sampled_from(["Site", "Zone"])), "children": [{"name": z, "type": alias, "children": None} for z in zones]}
            if draw(st.booleans()):
                ss[0]["zone"] = "Site"
                if draw(st.booleans()):
                    # ... and named like one of the zones (or the root): the zone made for it needs a free name
                    ss[0]["name"] = draw(st.sampled_from(list(zones) + ["Site"]))
        if draw(st.integers(0, 2)) == 0:
            # numbers spelled as value-with-unit dictionaries (unit strings such as '\u00b0C', 'kW/m^2/degC'), field by field
            S.apply_spelling(p, draw(st.lists(st.integers(0, 3), min_size=2, max_size=9)))
        pool.append(p)
    return pool


def machine(col, tier):
    class PurityMachine(LoggedMachine):
        @initialize(pool=pool_strategy())
        def setup(self, pool):
            self.init = {"pool": pool}
            self.n = len(pool)
            self.has_pp = False

        def _add(self, op):
            if self.init is None:
                return
            self.ops.append(op)

        @rule(i=st.integers(0, 3))
        def service_dict(self, i):
            self._add({"op": "service_dict", "i": i % self.n})

        @rule(i=st.integers(0, 3))
        def service_model(self, i):
            self._add({"op": "service_model", "i": i % self.n})

        @rule(i=st.integers(0, 3))
        def service_dict_of_models(self, i):
            self._add({"op": "service_dict_of_models", "i": i % self.n})

        @rule(i=st.integers(0, 3))
        def service_fresh_model(self, i):
            self._add({"op": "service_fresh_model", "i": i % self.n})

        @rule(i=st.integers(0, 3))
        def pp_load_target(self, i):
            self._add({"op": "pp_load_target", "i": i % self.n})
            self.has_pp = True

        @rule(i=st.integers(0, 3))
        def pp_reload_target(self, i):
            self._add({"op": "pp_reload_target", "i": i % self.n})
            self.has_pp = True

        @rule(i=st.integers(0, 3))
        def pp_edit_model_and_reload(self, i):
            self._add({"op": "pp_edit_model_and_reload", "i": i % self.n})
            self.has_pp = True

        @rule()
        def pp_target_again(self):
            if self.has_pp:
                self._add({"op": "pp_target_again"})

        @rule()
        def pp_export(self):
            if self.has_pp:
                self._add({"op": "pp_export"})

        def finalize(self, out):
            finalize_history(out, self.init, self.ops)

        def teardown(self):
            # the whole history is decided at the end: every prefix is checked inside the history child
            if self.init is None or self._reported:
                return
            res = evaluate(self.case())
            self.out = res
            self._reported = True
            self.col.report(self.case(), res)

    PurityMachine.col = col
    return PurityMachine


FRESH_SRC = r"""
import json, sys
case = json.load(sys.stdin)
from OpenPinch.main import pinch_analysis_service
res = pinch_analysis_service(case, "Site")
print("RESULT" + json.dumps(json.loads(json.dumps(res.model_dump(), default=repr, sort_keys=True)), sort_keys=True))
"""


def eval_fresh(case) -> Outcome:
    """Validates the fork proxy: a genuinely fresh interpreter gives the one-shot fork result."""
    import subprocess

    out = Outcome()
    out.nontrivial = True
    _import_only()
    want = forksut.run_in_child(lambda: oneshot_child([case], {"op": "service_dict", "i": 0}, None))
    env = dict(os.environ)
    env["PYTHONHASHSEED"] = "0"
    pr = subprocess.run([sys.executable, "-c", FRESH_SRC], input=json.dumps(case), capture_output=True, text=True, env=env, timeout=600)
    line = next((l for l in pr.stdout.splitlines() if l.startswith("RESULT")), None)
    if line is None:
        if isinstance(want, dict) and "exception" in want:
            return out  # both refuse
        out.fail("C11.fresh_interpreter_differs", f"fresh interpreter produced no result (rc {pr.returncode}): {pr.stderr[-300:]}")
        return out
    got = json.loads(line[6:])
    if got != want:
        out.fail("C11.fresh_interpreter_differs", f"fresh interpreter result differs from the forked one-shot result: {_first_diff(want, got)[:300]}")
    return out


PARTS = [
    Part("histories", evaluate, {"quick": 240, "thorough": 5000}, machine=machine, steps={"quick": 6, "thorough": 10}, min_nontrivial={"quick": 60, "thorough": 1500}),
    Part("fresh_interpreter", eval_fresh, {"quick": 4, "thorough": 48}, strategy=lambda tier: G.problem(min_streams=2, max_streams=6, thirds=False), min_nontrivial={"quick": 2, "thorough": 20}),
]
MIN_SHARE = {"histories": {"model-object-reused": 0.069, "op:pp_export": 0.03, "op:pp_reload_target": 0.02, "op:pp_edit_model_and_reload": 0.02, "op:service_dict": 0.099, "pool-has-user-zone-tree": 0.2}}
