"""C04  Utility profiles are thermodynamically feasible and lowest-grade-first."""
from __future__ import annotations

from fractions import Fraction as Fr

from hypothesis import strategies as st

from ..core.types import Outcome, Part
from ..gen import problems as G
from ..gen import service as S
from ..ref import cascade as C
from ..ref import utility as U
from . import _pipeline as P

PID = "C04"
RULE = (
    "stream sets (2-8, thorough 2-12) crossed with utility ladders of 1-4 levels per side (inside pockets, at the pinch, beyond the range; "
    "isothermal and with glide; a part of the budget uses all-isothermal ladders so the optimality oracle applies); oracle (a) for every "
    "DI target: the utility GCC rebuilt by the harness from the reported duties and utility temperatures satisfies 0 <= U(T) <= exact "
    "pocket-free process GCC at every breakpoint of either curve, and the table column H_net_ut lies within [0, H_net_actual] and equals that rebuilt utility GCC row by row; oracle (b) "
    "for ladders whose listed utilities are isothermal (documented 0.1 K expansion) with levels >= 1 K apart: duties equal the lexicographic "
    "LP optimum (HiGHS), lowest grade first. non-trivial = a side with demand has >= 2 levels of which the lowest-grade one lies strictly "
    "between the pinch and the end of the range; distinct by canonical JSON."
)
ASSUMPTIONS = [
    "utility temperatures are read from the utility objects listed on the target (they are inputs after the documented expansion); duties are the reported ones",
    "U <= pocket-free GCC is equivalent to cascade feasibility because U is monotone on each side of the pinch",
    "LP tolerance 1e-6 x total duty + 1e-7 x target; HiGHS is trusted as the independent optimiser",
]


PHASE = [0.1]  # isothermal expansion in force for the case being evaluated (DT_PHASE_CHANGE option)


def _levels_ok(rows):
    """Isothermal (<= 0.1001 K span after expansion), pairwise >= 1 K apart on the real and on the
    shifted scale, and ranked identically on both scales (so "lower grade" is unambiguous)."""
    if any(abs(r["tsf"] - r["ttf"]) > Fr(repr(PHASE[0])) + Fr(1, 10000) for r in rows):
        return False
    by_shift = sorted(rows, key=lambda r: r["tsf"])
    by_real = sorted(rows, key=lambda r: Fr(repr(float(r["t_supply"]))))
    if [r["name"] for r in by_shift] != [r["name"] for r in by_real] or len({r["name"] for r in rows}) < len(rows):
        return False
    ts = [r["tsf"] for r in by_shift]
    tr = [Fr(repr(float(r["t_supply"]))) for r in by_real]
    return all(b - a >= 1 for a, b in zip(ts, ts[1:])) and all(b - a >= 1 for a, b in zip(tr, tr[1:]))


def eval_case(case) -> Outcome:
    out = Outcome()
    an = P.Analysis(case, out, "C04")
    if not an.ok:
        return out
    P.classify_site(out, an)
    P.root_causes(out, an)
    PHASE[0] = float((case.get("options") or {}).get("DT_PHASE_CHANGE", 0.1))
    if case.get("tie"):
        out.labels.add("utility-target-on-a-tie")
    if case.get("glide"):
        out.labels.add("long-glide-above-a-lower-level")
    for path, zone, c in an.zones:
        t = an.target(zone, S.DI)
        if t is None or not c.T or min(c.R) != 0:
            continue
        where = "/".join(path) or "<site>"
        eps = P.eps_of(c)
        tol = eps + 1e-7 * float(max(c.Qh, c.Qc))
        Te, Ne = C.envelope(c.T, c.R)
        zeros = [tt for tt, r in zip(c.T, c.R) if r == 0]
        hot_pinch, cold_pinch = max(zeros), min(zeros)
        hu, cu = U.frac_rows(P.ut_rows(t, "hot")), U.frac_rows(P.ut_rows(t, "cold"))
        active_names = {e["name"] for e in P.expanded_utilities(case)}
        for r in hu + cu:
            if r["q"] > 0 and any((x["name"] == r["name"] and not x.get("active", True)) for x in (case.get("utilities") or [])) and r["name"] not in active_names:
                out.fail("C04.inactive_utility_used", f"{where}: utility {r['name']} was supplied with active = false but carries {float(r['q'])!r}")
        # --- (a) feasibility from reported duties
        pts = set(Te)
        for r in hu + cu:
            pts.add(r["tsf"])
            pts.add(r["ttf"])
        worst = None
        for T in sorted(pts, reverse=True):
            u = U.utility_gcc(hu, cu, T)
            npv = C.interp(Te, Ne, T)
            if float(u) < -tol:
                out.fail("C04.ugcc_negative", f"{where}: utility GCC {float(u)!r} < 0 at T*={float(T)}")
            over = float(u - npv)
            if over > tol and (worst is None or over > worst[0]):
                worst = (over, T, u, npv)
        if worst:
            over, T, u, npv = worst
            side = "above" if T > hot_pinch else ("below" if T < cold_pinch else "at/between the pinches")
            out.fail(
                "C04.ugcc_feasible",
                f"{where}: utility GCC {float(u)!r} exceeds pocket-free process GCC {float(npv)!r} by {over:.6g} at T*={float(T)} ({side}); "
                f"hot {[(r['name'], r['q'], float(r['tsf']), float(r['ttf'])) for r in hu if r['q'] > 0]} cold {[(r['name'], r['q'], float(r['tsf']), float(r['ttf'])) for r in cu if r['q'] > 0]}",
            )
        # --- second observation: the table's own columns
        pt = t.pt
        hut, hact = pt.col["H_net_ut"], pt.col["H_net_actual"]
        rtol = tol + 1.1e-4
        for i in range(len(pt)):
            if hut[i] < -rtol or hut[i] > hact[i] + rtol:
                out.fail("C04.table_ugcc", f"{where}: row T*={pt.col['T'][i]!r}: H_net_ut={hut[i]!r} outside [0, H_net_actual={hact[i]!r}]")
                break
        # the column is the utility GCC of the reported duties (the cascade that draws it must use both utility sets)
        w = Fr(1, 10000)
        for i in range(len(pt)):
            Ti = Fr(repr(float(pt.col["T"][i])))
            slope = sum((r["q"] / max(abs(r["tsf"] - r["ttf"]), Fr(1, 1000)) for r in hu + cu if r["q"] > 0 and min(r["tsf"], r["ttf"]) - w <= Ti <= max(r["tsf"], r["ttf"]) + w), Fr(0))
            want = float(U.utility_gcc(hu, cu, Ti))
            if abs(float(hut[i]) - want) > rtol + 5.1e-5 * float(slope):
                out.fail("C04.table_ugcc_value", f"{where}: row T*={float(Ti)}: H_net_ut={float(hut[i])!r} but the utility GCC of the reported duties is {want!r}")
                break
        # --- (b) optimality on isothermal ladders with distinct levels
        for side, rows, pinch, total in (("hot", hu, hot_pinch, c.Qh), ("cold", cu, cold_pinch, c.Qc)):
            if total <= 0 or len(rows) < 1:
                continue
            inner = [
                r for r in rows
                if (side == "hot" and hot_pinch < r["ttf"] and r["tsf"] < c.T[0]) or (side == "cold" and cold_pinch > r["ttf"] and r["tsf"] > c.T[-1])
            ]
            if len(rows) >= 2 and inner:
                out.nontrivial = True
                out.labels.add(f"{side}-level-inside-range")
            if not _levels_ok(rows):
                # mixed ladder (some level glides, or two levels are close): only the lowest-grade level is decided, and only if it is
                # unambiguous - isothermal, and the coldest hot (hottest cold) utility by supply temperature on the real and on the
                # shifted scale with at least 1 K to the next supply temperature.  Whatever the others do, it must carry the
                # largest duty that keeps the utility GCC under the pocket-free GCC (LP over all duties, this one maximised).
                if len(rows) >= 2 and len({r["name"] for r in rows}) == len(rows):
                    sgn = 1 if side == "hot" else -1
                    by_shift = sorted(rows, key=lambda r: sgn * r["tsf"])
                    by_real = sorted(rows, key=lambda r: sgn * Fr(repr(float(r["t_supply"]))))
                    first = by_shift[0]
                    iso = abs(first["tsf"] - first["ttf"]) <= Fr(repr(PHASE[0])) + Fr(1, 10000)
                    clear = by_real[0]["name"] == first["name"] and abs(by_shift[1]["tsf"] - first["tsf"]) >= 1 and abs(Fr(repr(float(by_real[1]["t_supply"]))) - Fr(repr(float(first["t_supply"])))) >= 1
                    if iso and clear:
                        out.labels.add(f"{side}-mixed-ladder-first-level-decided")
                        opt = U.lex_optimum(side, rows, Te, Ne, pinch, total, first_only=True)
                        if opt is not None:
                            q = opt[rows.index(first)]
                            if abs(first["q"] - q) > tol:
                                out.fail(f"C04.{side}_lowest_grade_first_mixed", f"{where}: the lowest-grade {side} utility {first['name']} (isothermal, T*={float(first['tsf'])}) carries {first['q']!r} but could carry {q!r} with the utility GCC still under the pocket-free GCC; all: {[(x['name'], x['q']) for x in rows]}")
                continue
            out.labels.add(f"{side}-lp-applicable")
            opt = U.lex_optimum(side, rows, Te, Ne, pinch, total)
            if opt is None:
                out.labels.add("lp-infeasible")
                continue
            for r, q in zip(rows, opt):
                if abs(r["q"] - q) > tol:
                    out.fail(
                        f"C04.{side}_lowest_grade_first",
                        f"{where}: {side} utility {r['name']} at T*={float(r['tsf'])} carries {r['q']!r} but the lexicographic optimum is {q!r}; "
                        f"all: {[(x['name'], x['q'], round(o, 6)) for x, o in zip(rows, opt)]}",
                    )
                    break
    return out


@st.composite
def tie_ladder(draw, tier):
    """Isothermal ladders whose shifted target end sits exactly on a stream bound (often the pinch) or on the
    supply end of the next lower level.  DT_PHASE_CHANGE is 0.5 or 1.0 so that every tie is exact in binary."""
    mx = 6 if tier == "quick" else 9
    phase = draw(st.sampled_from([0.5, 1.0, 1.0]))
    pal = draw(st.lists(st.integers(-40, 800).map(lambda k: k / 2), min_size=3, max_size=7, unique=True))
    dts = st.sampled_from([0.0, 2.5, 5.0, 10.0])
    ss = draw(G.streams(3, mx, False, "mixed", 0.0, dts=dts, pal=pal, thirds=False))
    for s in ss:  # keep every bound on the 0.5 K grid
        s["t_supply"], s["t_target"] = round(s["t_supply"] * 2) / 2, round(s["t_target"] * 2) / 2
        if s["t_supply"] == s["t_target"]:
            s["t_target"] = s["t_supply"] + 5.0
    bounds = sorted({(b - s["dt_cont"]) if s["t_supply"] > s["t_target"] else (b + s["dt_cont"]) for s in ss for b in (s["t_supply"], s["t_target"])})
    us = []
    prev = None
    for i in range(draw(st.integers(1, 3))):
        dtu = draw(st.sampled_from([0.0, 2.5, 5.0]))
        if prev is not None and draw(st.booleans()):
            t = prev["t_supply"] - prev["dt_cont"] + dtu + phase  # shifted target == shifted supply of the level below
        else:
            t = draw(st.sampled_from(bounds)) + dtu + phase  # shifted target == a stream bound
        u = {"name": f"HU{i + 1}", "type": "Hot", "t_supply": t, "t_target": t, "heat_flow": None, "dt_cont": dtu, "htc": 1.0, "price": 40.0, "active": True}
        us.append(u)
        prev = u
    prev = None
    for i in range(draw(st.integers(0, 3))):
        dtu = draw(st.sampled_from([0.0, 2.5, 5.0]))
        if prev is not None and draw(st.booleans()):
            t = prev["t_supply"] + prev["dt_cont"] - dtu - phase
        else:
            t = draw(st.sampled_from(bounds)) - dtu - phase
        u = {"name": f"CU{i + 1}", "type": "Cold", "t_supply": t, "t_target": t, "heat_flow": None, "dt_cont": dtu, "htc": 1.0, "price": 10.0, "active": True}
        us.append(u)
        prev = u
    return {"streams": ss, "utilities": us, "options": {"DT_PHASE_CHANGE": phase}, "tie": True}


@st.composite
def glide_ladder(draw, tier):
    """Three levels on one side: a near-isothermal level close to the pinch, a level with a long glide whose return
    end lies inside the process range above it, and a top level; demand concentrated high up.  Mirrored half the time."""
    base = float(draw(st.integers(2, 12)) * 10)
    cuts = [base]
    for _ in range(draw(st.integers(2, 4))):
        cuts.append(cuts[-1] + draw(st.sampled_from([20.0, 40.0, 60.0, 120.0])))
    ss = []
    for i, (a, b) in enumerate(zip(cuts, cuts[1:])):
        ss.append({"zone": "P1", "name": f"C{i + 1}", "t_supply": a, "t_target": b, "heat_flow": draw(st.sampled_from([100.0, 120.0, 600.0, 1800.0, 4000.0])), "dt_cont": draw(st.sampled_from([0.0, 5.0])), "htc": 1.0})
    for i in range(draw(st.integers(0, 2))):
        hi = draw(st.sampled_from(cuts[:-1])) + draw(st.sampled_from([0.0, 10.0, 30.0]))
        ss.append({"zone": "P1", "name": f"H{i + 1}", "t_supply": hi, "t_target": hi - draw(st.sampled_from([20.0, 50.0, 70.0])), "heat_flow": draw(st.sampled_from([50.0, 300.0, 700.0])), "dt_cont": draw(st.sampled_from([0.0, 5.0])), "htc": 1.0})
    top = cuts[-1]
    t1 = draw(st.sampled_from(cuts[1:-1])) + draw(st.sampled_from([5.0, 10.0, 20.0]))
    t2r = t1 + draw(st.sampled_from([10.0, 30.0, 50.0]))
    t2s = max(t2r + draw(st.sampled_from([40.0, 90.0, 150.0])), top + 20.0)
    dtu = draw(st.sampled_from([0.0, 5.0]))
    us = [
        {"name": "LPS", "type": "Hot", "t_supply": t1, "t_target": t1 - 1.0, "heat_flow": None, "dt_cont": dtu, "htc": 1.0, "price": 10.0, "active": True},
        {"name": "OIL", "type": "Hot", "t_supply": t2s, "t_target": t2r, "heat_flow": None, "dt_cont": dtu, "htc": 1.0, "price": 20.0, "active": True},
        {"name": "HPS", "type": "Hot", "t_supply": t2s + 20.0, "t_target": t2s + 19.0, "heat_flow": None, "dt_cont": dtu, "htc": 1.0, "price": 40.0, "active": True},
        {"name": "CW", "type": "Cold", "t_supply": base - 60.0, "t_target": base - 55.0, "heat_flow": None, "dt_cont": dtu, "htc": 1.0, "price": 5.0, "active": True},
    ]
    if draw(st.booleans()):
        us.pop(2)
    case = {"streams": ss, "utilities": draw(st.permutations(us)), "glide": True}
    if draw(st.booleans()):  # mirror image: the same structure on the cold side
        for x in case["streams"] + case["utilities"]:
            x["t_supply"], x["t_target"] = -x["t_supply"], -x["t_target"]
        for u in case["utilities"]:
            u["type"] = {"Hot": "Cold", "Cold": "Hot"}[u["type"]]
    return case


def strategy(tier):
    mx = 8 if tier == "quick" else 12
    return G.with_options(st.one_of(
        tie_ladder(tier),
        glide_ladder(tier),
        G.gcc_problem(max_rows=12, max_hot=4, max_cold=4, isothermal_utils=True, max_both=0),
        G.gcc_problem(max_rows=12, max_hot=4, max_cold=4),
        G.problem(min_streams=3, max_streams=mx, shape="mixed", max_hot=4, max_cold=4, isothermal_utils=True, max_both=0),
        G.problem(min_streams=3, max_streams=mx, shape="mixed", max_hot=4, max_cold=4, isothermal_utils=True),
        G.problem(min_streams=3, max_streams=mx, shape="mixed", max_hot=4, max_cold=4),
        G.problem(min_streams=2, max_streams=mx, shape="mixed", multi_zone=True, max_hot=3, max_cold=3),
    ))


PARTS = [Part("service", eval_case, {"quick": 1000, "thorough": 25000}, strategy=strategy, min_nontrivial={"quick": 150, "thorough": 3000})]
MIN_SHARE = {"service": {"utility-target-on-a-tie": 0.055, "hot-lp-applicable": 0.15, "cold-lp-applicable": 0.15, "hot-level-inside-range": 0.1, "cold-level-inside-range": 0.1, "glide-utility": 0.1}}
