"""C02  Every reported target closes the first-law energy balance."""
from __future__ import annotations

from hypothesis import strategies as st

from ..core.types import Outcome, Part
from ..gen import problems as G
from ..gen import service as S
from . import _pipeline as P

PID = "C02"
RULE = (
    "problems (1-8 streams, thorough 1-12; 1-4 label-safe zones) crossed with utility sets (none, isothermal, glide, Both, several levels, inactive); "
    "oracle = first-law sums recomputed from the input streams for every Direct-Integration, Total-Process and Total-Site target of the "
    "returned tree and every uniquely named record; non-trivial = a Total-Site target exists and the site needs both utilities or is a "
    "threshold problem; distinct by canonical JSON."
)
ASSUMPTIONS = [
    "temperatures on the 1e-3 K grid (see opv/gen/problems.py); positive duties; label-safe zone sets",
    "tolerance 1e-6 x total duty of the record's zone (+1e-9)",
]

KINDS = [S.DI, S.TZ, S.TS]
SHORT = {S.DI: "di", S.TZ: "tz", S.TS: "ts"}


def eval_case(case) -> Outcome:
    out = Outcome()
    an = P.Analysis(case, out, "C02")
    if not an.ok:
        return out
    P.classify_site(out, an)
    P.root_causes(out, an)
    has_ts = False
    for path, zone, c in an.zones:
        eps = P.eps_of(c)
        where = "/".join(path) or "<site>"
        net = float(c.SC - c.SH)
        for kind in KINDS:
            t = an.target(zone, kind)
            if t is None:
                continue
            k = SHORT[kind]
            if kind == S.TS:
                has_ts = True
            qh, qc, qr = float(t.hot_utility_target), float(t.cold_utility_target), float(t.heat_recovery_target)
            if abs((qh - qc) - net) > eps:
                out.fail(f"C02.{k}_balance", f"{where} [{kind}]: Qh-Qc={qh - qc!r} but cold-hot duty={net!r} (Qh={qh!r}, Qc={qc!r})")
            if abs(qr - (float(c.SH) - qc)) > eps:
                out.fail(f"C02.{k}_recovery", f"{where} [{kind}]: Qr={qr!r} but hot duty - Qc={float(c.SH) - qc!r}")
            for nm, v in (("Qh", qh), ("Qc", qc), ("Qr", qr)):
                if v < -eps:
                    out.fail(f"C02.{k}_nonneg", f"{where} [{kind}]: {nm}={v!r} < 0")
            hu = sum(float(u.heat_flow) for u in t.hot_utilities)
            cu = sum(float(u.heat_flow) for u in t.cold_utilities)
            if abs((hu - cu) - (qh - qc)) > eps:
                out.fail(f"C02.{k}_utility_net", f"{where} [{kind}]: sum hot utilities {hu!r} - sum cold {cu!r} = {hu - cu!r} but Qh-Qc={qh - qc!r}")
            # the serialised record, where its name is unique
            key = f"{zone.name}/{kind}"
            rs = an.records.get(key, [])
            if len(rs) == 1:
                r = rs[0]
                rqh, rqc, rqr = S.val(r.Qh), S.val(r.Qc), S.val(r.Qr)
                if abs((rqh - rqc) - net) > eps or abs(rqr - (float(c.SH) - rqc)) > eps or min(rqh, rqc, rqr) < -eps:
                    out.fail(f"C02.{k}_record", f"record {key}: Qh={rqh!r} Qc={rqc!r} Qr={rqr!r}; cold-hot duty={net!r}, hot duty={float(c.SH)!r}")
                rhu = sum(S.val(u.heat_flow) for u in r.hot_utilities)
                rcu = sum(S.val(u.heat_flow) for u in r.cold_utilities)
                if abs((rhu - rcu) - (rqh - rqc)) > eps:
                    out.fail(f"C02.{k}_record_utility_net", f"record {key}: utilities {rhu!r}-{rcu!r} vs Qh-Qc={rqh - rqc!r}")
            elif not rs:
                out.fail("C02.record_missing", f"target {key} is on the tree but not in the output")
    c = an.site
    out.nontrivial = has_ts and ((c.Qh > 0 and c.Qc > 0) or (c.hot and c.cold and (c.Qh == 0) != (c.Qc == 0)))
    return out


def strategy(tier):
    from .c09 import nested_site, source_sink_site

    mx = 8 if tier == "quick" else 12
    return G.with_options(st.one_of(
        G.gcc_problem(max_rows=12, zones=("P1", "P2")),
        source_sink_site(tier),
        nested_site(tier),
        G.community_problem(),
        G.problem(min_streams=3, max_streams=mx, shape="mixed"),
        G.problem(min_streams=2, max_streams=mx, shape="mixed", multi_zone=True),
        G.problem(max_streams=mx),
        G.problem(min_streams=2, max_streams=mx, shape="mixed", with_utilities=False),
    ))


PARTS = [Part("service", eval_case, {"quick": 2400, "thorough": 40000}, strategy=strategy, min_nontrivial={"quick": 400, "thorough": 8000})]
MIN_SHARE = {"service": {"threshold": 0.05, "both-type-utility": 0.1, "multi-zone": 0.2, "glide-utility": 0.1}}
