"""C18  Solved heat-pump cycles obey the first and second laws."""
from __future__ import annotations

import math

from hypothesis import strategies as st

from ..core.sut import call_sut
from ..core.types import Outcome, Part

PID = "C18"
RULE = (
    "refrigerant drawn from CoolProp's fluid list x evaporating / condensing temperatures inside (T_triple+1, T_crit-1) with lift from 0.5 K "
    "upward (fractions of the two-phase range), superheat and subcooling >= 0, compressor efficiency in (0,1], positive condenser duty, "
    "ihx_gas_dt = 0 (no internal exchanger), then a generated order of build_stream_collection requests (condenser first, evaporator first, "
    "both at once, repeats). oracle: Q_cond = Q_evap + work with work > 0, COP_h = COP_r + 1, S1 >= S0, S3 >= S2, H3 = H2, P0 = Psat(Te), "
    "P1 = P2 = Psat(Tc) with CoolProp's high-level PropsSI as second opinion; emitted hot set sums to Q_cond, cold set to Q_evap, "
    "temperatures monotone, sets independent of request order; in half of the cases a second, unrelated cycle object is solved and asked for its streams at a generated point of the history (before the states are read or between two requests) - the first cycle's states and sets must not notice. part carnot_helper (supplementary, anchored helper): generated source profile, condenser ladder and evaporator ladder given to _get_optimal_min_evap_T_for_multi_temperature_carnot_hp; sum Q_cond = sum Q_evap + work, positive work, no negative or scaled-up duties, duties / work = cop. non-trivial = the cycle solved with lift >= 0.5 K (helper: evaporator duty available); distinct by canonical JSON."
)
ASSUMPTIONS = [
    "the property is conditional on 'the library solves': an exception inside solve() is counted as not solved (by signature), never as a pass of the assertions",
    "entropy inequalities are asserted with 1e-6 relative + 1e-3 J/kg/K slack and skipped (counted) when PropsSI itself orders the two states the wrong way",
    "CoolProp is the only property database available: the saturation-pressure second opinion is its other interface",
    "operating points whose evaporating saturation pressure is below 1 kPa, or where CoolProp's two interfaces disagree on a saturation pressure by more than 1e-8, are skipped and counted",
]

_fluids = None


def fluids():
    global _fluids
    if _fluids is None:
        import CoolProp.CoolProp as CP

        out = []
        for f in sorted(CP.FluidsList()):
            try:
                tt, tc = CP.PropsSI("Ttriple", f), CP.PropsSI("Tcrit", f)
                if tc - tt > 12 and math.isfinite(tt) and math.isfinite(tc):
                    out.append((f, tt, tc))
            except Exception:
                pass
        _fluids = out
    return _fluids


def close(a, b, rel=1e-9, ab=1e-9):
    return abs(a - b) <= ab + rel * max(abs(a), abs(b))


def dump_streams(sc):
    return [(s.name, float(s.t_supply), float(s.t_target), float(s.heat_flow)) for s in sc._streams.values()]


def same_sets(a, b):
    if len(a) != len(b):
        return False
    return all(x[0] == y[0] and close(x[1], y[1], 1e-9, 1e-9) and close(x[2], y[2], 1e-9, 1e-9) and close(x[3], y[3], 1e-9, 1e-12) for x, y in zip(a, b))


def eval_case(case) -> Outcome:
    import CoolProp.CoolProp as CP
    from OpenPinch.classes.simple_heat_pump import SimpleHeatPumpCycle

    out = Outcome()
    fl = fluids()
    name, tt, tc = fl[case["fluid"] % len(fl)]
    lo, hi = tt + 1.0, tc - 1.0
    Te = lo + case["fe"] * (hi - lo - 0.5)
    lift = max(0.5, case["flift"] * (hi - Te))
    Tc = min(hi, Te + lift)
    if Tc - Te < 0.5:
        out.skip = "range-too-narrow"
        return out
    Te_C, Tc_C = round(Te - 273.15, 3), round(Tc - 273.15, 3)
    snap = case.get("snap")
    if snap == "te" and lo < 273.15 - 0.0 < Tc - 0.5:
        Te_C = 0.0  # evaporating at exactly 0 degC (the cycle works in degC: relative comparisons degenerate there)
    elif snap == "tc" and Te + 0.5 < 273.15 < hi:
        Tc_C = 0.0
    elif snap == "round":
        Te_C, Tc_C = float(round(Te_C)), float(round(Tc_C))
        if Tc_C - Te_C < 0.5:
            Tc_C = Te_C + 1.0
    if snap:
        out.labels.add("snapped:" + snap + (":0degC" if 0.0 in (Te_C, Tc_C) else ""))
    Te, Tc = Te_C + 273.15, Tc_C + 273.15
    dsh, dsc, eta, Q = case["dsh"], case["dsc"], case["eta"], case["Q"]
    lift = Tc - Te
    out.labels.add("lift<5K" if lift - dsh - dsc < 5 else "lift>=5K")
    out.rc.add("net-lift<5K" if lift - dsh - dsc < 5 else "net-lift>=5K")
    if dsh > 0:
        out.labels.add("superheat")
    if dsc > 0:
        out.labels.add("subcooling")
    order = case["order"]
    first = next((o for o in order if o in ("cond", "evap", "both")), None)
    if first == "evap":
        out.labels.add("evap-requested-before-cond")
    try:
        ps_e = CP.PropsSI("P", "T", Te, "Q", 1, name)
        ps_c = CP.PropsSI("P", "T", Tc, "Q", 1, name)
        if not (math.isfinite(ps_e) and math.isfinite(ps_c) and 0 < ps_e < ps_c):
            raise ValueError
    except Exception:
        out.skip = "coolprop-refused"
        return out
    if ps_e < 1000.0:
        # below 1 kPa CoolProp's flash routines lose precision (its low- and high-level interfaces disagree on the
        # saturation pressure by up to 1e-2 relative and enthalpy differences drown in solver noise)
        out.skip = "saturation-pressure-below-1kPa"
        return out
    try:
        import CoolProp as _C

        AS = _C.AbstractState("HEOS", name)
        AS.update(_C.QT_INPUTS, 1.0, Te)
        pa_e = AS.p()
        AS.update(_C.QT_INPUTS, 1.0, Tc)
        pa_c = AS.p()
        if not (close(pa_e, ps_e, 1e-8) and close(pa_c, ps_c, 1e-8)):
            out.skip = "coolprop-inconsistent"
            return out
    except Exception:
        out.skip = "coolprop-refused"
        return out
    # ---- degenerate-cycle predicates from the second opinion (PropsSI), not from the implementation
    try:
        h0r = CP.PropsSI("H", "P", ps_e, "Q", 1, name) if dsh == 0 else CP.PropsSI("H", "P", ps_e, "T", Te + dsh, name)
        s0r = CP.PropsSI("S", "P", ps_e, "Q", 1, name) if dsh == 0 else CP.PropsSI("S", "P", ps_e, "T", Te + dsh, name)
        hl2 = CP.PropsSI("H", "P", ps_c, "Q", 0, name)
        h2r = hl2 if dsc == 0 else CP.PropsSI("H", "P", ps_c, "T", Tc - dsc, name)
        h1s = CP.PropsSI("H", "P", ps_c, "S", s0r, name)
        h1r = h0r + (h1s - h0r) / eta
        hv_e = CP.PropsSI("H", "P", ps_e, "Q", 1, name)
        if h0r < hv_e - 1e-6 * abs(hv_e) or h2r > hl2 + 1e-6 * abs(hl2):
            # CoolProp itself puts the superheated (subcooled) state on the wrong side of its own saturation state
            out.skip = "coolprop-inconsistent"
            return out
        if h2r >= min(h0r, hv_e) - 1e-6 * abs(h0r):
            # the throttled refrigerant is not wet: nothing (or only superheating) is left for the evaporator
            out.rc.add("no-evaporation-possible")
            out.labels.add("no-evaporation-possible")
        if h1r <= hl2 + 1e-6 * abs(hl2):
            out.rc.add("discharge-not-above-saturated-liquid")
            out.labels.add("discharge-not-above-saturated-liquid")
    except Exception:
        out.skip = "coolprop-refused"
        return out
    hp = SimpleHeatPumpCycle()
    ok, res = call_sut(hp.solve, Te_C, Tc_C, dT_sh=dsh, dT_sc=dsc, eta_comp=eta, refrigerant=name, ihx_gas_dt=0.0, Q_h_total=Q)
    if not ok:
        out.skip = "not-solved:" + res
        return out
    out.nontrivial = True
    other = case.get("other")

    def solve_other():
        """A second, unrelated cycle object is solved (and asked for its streams) in between: the first cycle's
        states and stream sets must not notice."""
        n2, tt2, tc2 = fl[(case["fluid"] + other["dfluid"]) % len(fl)]
        lo2, hi2 = tt2 + 1.0, tc2 - 1.0
        Te2 = lo2 + other["fe"] * (hi2 - lo2 - 0.5)
        Tc2 = min(hi2, Te2 + max(0.5, other["flift"] * (hi2 - Te2)))
        hp2 = SimpleHeatPumpCycle()
        ok2, _ = call_sut(hp2.solve, round(Te2 - 273.15, 3), round(Tc2 - 273.15, 3), dT_sh=other["dsh"], dT_sc=0.0, eta_comp=0.6, refrigerant=n2, ihx_gas_dt=0.0, Q_h_total=other["Q"])
        if ok2:
            out.labels.add("other-cycle-solved-in-between")
            call_sut(hp2.build_stream_collection, include_cond=True, include_evap=True)

    if other and other["at"] == 0:
        solve_other()
    ctx = f"{name} Te={Te_C}C Tc={Tc_C}C sh={dsh} sc={dsc} eta={eta} Q={Q}"
    H, S, P = list(hp.Hs), list(hp.Ss), list(hp.Ps)
    Qc, Qe, W = hp.Q_cond, hp.Q_evap, hp.work
    if not close(Qc, Qe + W, 1e-9):
        out.fail("C18.first_law", f"{ctx}: Q_cond={Qc!r} but Q_evap+work={Qe + W!r}")
    if not close(Qc, Q, 1e-12):
        out.fail("C18.duty", f"{ctx}: Q_cond={Qc!r} but {Q!r} was requested")
    if not (W > 0):
        out.fail("C18.work_positive", f"{ctx}: work={W!r}")
    if not (Qe >= 0):
        out.fail("C18.first_law", f"{ctx}: Q_evap={Qe!r} < 0")
    ok1, coph = call_sut(lambda: hp.COP_h)
    ok2, copr = call_sut(lambda: hp.COP_r)
    if ok1 and ok2:
        if not close(coph, copr + 1, 1e-9):
            out.fail("C18.cop_relation", f"{ctx}: COP_h={coph!r} but COP_r+1={copr + 1!r} (H={H})")
        if W > 0 and not close(coph, Qc / W, 1e-9):
            out.fail("C18.cop_vs_duties", f"{ctx}: COP_h={coph!r} but Q_cond/work={Qc / W!r}")
    if not close(H[3], H[2], 1e-7, 1e-3):
        out.fail("C18.throttle_isenthalpic", f"{ctx}: H3={H[3]!r} but H2={H[2]!r}")
    if not close(P[0], ps_e, 1e-6):
        out.fail("C18.evap_pressure", f"{ctx}: P0={P[0]!r} but Psat(Te)={ps_e!r}")
    if not (close(P[1], ps_c, 1e-6) and close(P[2], ps_c, 1e-6)):
        out.fail("C18.cond_pressure", f"{ctx}: P1={P[1]!r}, P2={P[2]!r} but Psat(Tc)={ps_c!r}")
    if not close(P[3], P[0], 1e-6):
        out.fail("C18.evap_pressure", f"{ctx}: P3={P[3]!r} differs from P0={P[0]!r}")

    def second_opinion(i, j):
        """PropsSI entropies of states i and j from (H, P); None if it refuses."""
        try:
            si = CP.PropsSI("S", "H", H[i], "P", P[i], name)
            sj = CP.PropsSI("S", "H", H[j], "P", P[j], name)
            return si, sj
        except Exception:
            return None

    for (a, b, aid, what) in ((0, 1, "C18.compression_entropy", "compression"), (2, 3, "C18.throttle_entropy", "throttling")):
        if S[b] < S[a] - (1e-6 * max(abs(S[a]), abs(S[b])) + 1e-3):  # J/kg/K; CoolProp's flash noise is ~1e-8 relative
            so = second_opinion(a, b)
            if so is not None and so[1] < so[0] - (1e-6 * abs(so[0]) + 1e-3) and close(H[3], H[2], 1e-7, 1e-3) and b == 3:
                out.labels.add("coolprop-inconsistent")
                continue
            out.fail(aid, f"{ctx}: {what} lowers specific entropy: S{a}={S[a]!r} -> S{b}={S[b]!r}")
    # ---- stream sets, in the generated request order
    got = {}
    for k, req in enumerate(order):
        if other and other["at"] == k + 1:
            solve_other()
        inc_c, inc_e = req in ("cond", "both"), req in ("evap", "both")
        okb, sc = call_sut(hp.build_stream_collection, include_cond=inc_c, include_evap=inc_e)
        if not okb:
            import re

            if re.search(r"solver|Brent|unable to|out of range|not a number|flash|did not converge", call_sut.last_message):
                out.skip = "coolprop-refused-after-solve"  # CoolProp's own flash routine gave up (message text), not OpenPinch bookkeeping
                out.fails.clear()
                return out
            out.fail("C18.sut_exception:" + sc, f"{ctx}: build_stream_collection({req}) raised {sc}: {call_sut.last_message}")
            return out
        rows = dump_streams(sc)
        hot = [r for r in rows if r[0].startswith("Condenser")]
        cold = [r for r in rows if r[0].startswith("Evaporator")]
        for kind, rs, want in (("cond", hot, Qc), ("evap", cold, Qe)):
            if (kind == "cond" and not inc_c) or (kind == "evap" and not inc_e):
                continue
            tot = sum(r[3] for r in rs)
            if not close(tot, want, 1e-6, 1e-12):
                out.fail(f"C18.{kind}_streams_duty", f"{ctx}: request '{req}' (history {order}): {kind} streams carry {tot!r} but the cycle's duty is {want!r}")
            for r in rs:
                if (kind == "cond" and not r[1] >= r[2]) or (kind == "evap" and not r[1] <= r[2]) or r[3] < 0:
                    out.fail(f"C18.{kind}_streams_monotone", f"{ctx}: {kind} stream {r} runs the wrong way")
            for x, y in zip(rs, rs[1:]):
                if (kind == "cond" and y[1] > x[2] + 0.011) or (kind == "evap" and y[1] < x[2] - 0.011):
                    out.fail(f"C18.{kind}_streams_monotone", f"{ctx}: {kind} streams {x} then {y} are not monotone in temperature")
            if kind in got and not same_sets(got[kind], rs):
                out.fail(f"C18.{kind}_streams_order_dependent", f"{ctx}: {kind} streams differ between requests (history {order}): {got[kind]} vs {rs}")
            got.setdefault(kind, rs)
    return out


def strategy(tier):
    return st.fixed_dictionaries(
        {
            "fluid": st.integers(0, 200),
            "fe": st.one_of(st.floats(0, 1).map(lambda x: round(x, 4)), st.sampled_from([0.0, 0.3, 0.5, 0.8])),
            "flift": st.one_of(st.floats(0, 1).map(lambda x: round(x, 4)), st.sampled_from([0.0, 0.01, 0.02, 0.05, 0.1, 0.3, 0.6, 1.0])),
            "dsh": st.sampled_from([0.0, 0.0, 1.0, 5.0, 10.0]),
            "dsc": st.sampled_from([0.0, 0.0, 1.0, 3.0, 8.0]),
            "eta": st.sampled_from([1.0, 0.7, 0.7, 0.85, 0.5, 0.3]),
            "Q": st.sampled_from([1.0, 100.0, 738.7, 2500.0, 0.25, 5e-6, 3e-4, 0.02, 1e6]),  # any positive duty: a 5 kW machine written in GW, a 1 GW one in kW
            "order": st.lists(st.sampled_from(["cond", "evap", "both"]), min_size=1, max_size=4),
            "snap": st.sampled_from([None, None, None, None, "te", "tc", "round"]),
            "other": st.one_of(
                st.none(),
                st.fixed_dictionaries(
                    {
                        "at": st.integers(0, 3),
                        "dfluid": st.sampled_from([0, 0, 1, 7]),
                        "fe": st.sampled_from([0.1, 0.35, 0.6]),
                        "flift": st.sampled_from([0.1, 0.4]),
                        "dsh": st.sampled_from([0.0, 5.0]),
                        "Q": st.sampled_from([10.0, 5000.0]),
                    }
                ),
            ),
        }
    )


def eval_carnot(case) -> Outcome:
    """Supplementary: the anchored multi-temperature Carnot helper keeps condenser = evaporator + work."""
    import types

    import numpy as np
    from OpenPinch.analysis.heat_pump_targeting import _get_optimal_min_evap_T_for_multi_temperature_carnot_hp as helper

    out = Outcome()
    T_hot = np.array(case["T_hot"], dtype=float)
    H_hot = np.array(case["H_hot"], dtype=float)
    T_cond = np.array(case["T_cond"], dtype=float)
    Q_cond0 = np.array(case["Q_cond"], dtype=float)
    x_evap = np.array(case["x_evap"] + [0.0], dtype=float)
    args = types.SimpleNamespace(dt_range_max=case["dt_range"], T_hot=T_hot, H_hot=H_hot, Q_hp_target=float(Q_cond0.sum()) * case["target_factor"], price_ratio=case["price_ratio"], Q_amb_max=0.0)
    ok, res = call_sut(helper, case["T_lo"], [args, T_cond, Q_cond0, x_evap, None])
    if not ok:
        out.fail("C18.sut_exception:" + res, f"carnot helper raised {res}: {call_sut.last_message}")
        return out
    qc, qe, w, cop = np.asarray(res["Q_cond"], float), np.asarray(res["Q_evap"], float), float(res["work_hp"]), float(res["cop"])
    if not (np.isfinite(qc).all() and np.isfinite(qe).all() and np.isfinite(w)):
        if qe.sum() == 0 or not np.isfinite(cop):
            out.skip = "no-evaporator-duty-available"
            return out
        out.fail("C18.carnot_finite", f"non-finite helper output: Q_cond={qc}, Q_evap={qe}, work={w}")
        return out
    if (qe < -1e-12).any() or (qc < -1e-12).any():
        out.fail("C18.carnot_signs", f"negative duty: work={w!r}, Q_cond={qc}, Q_evap={qe}")
        return out
    if float(qe.sum()) <= 0:
        out.skip = "no-evaporator-duty-available"  # every evaporator level found no heat in the source profile (all exactly zero)
        return out
    out.nontrivial = True
    out.labels.add("condenser-limited" if abs(qc.sum() - Q_cond0.sum()) <= 1e-9 * Q_cond0.sum() else "evaporator-limited")
    scale = max(qc.sum(), 1e-9)
    if abs(qc.sum() - (qe.sum() + w)) > 1e-9 * scale:
        out.fail("C18.carnot_first_law", f"sum Q_cond={qc.sum()!r} but sum Q_evap + work = {qe.sum() + w!r}")
    if w <= 0 or (qc < -1e-12).any() or (qe < -1e-12).any():
        out.fail("C18.carnot_signs", f"work={w!r}, Q_cond={qc}, Q_evap={qe}")
    if (qc > Q_cond0 * (1 + 1e-9) + 1e-12).any():
        out.fail("C18.carnot_condenser_scaled_up", f"condenser duties {qc} exceed the available {Q_cond0}")
    if cop > 1 and abs(qc.sum() / w - cop) > 1e-6 * cop:
        out.fail("C18.carnot_cop", f"sum Q_cond / work = {qc.sum() / w!r} but cop = {cop!r}")
    return out


@st.composite
def carnot_case(draw):
    n = draw(st.integers(3, 8))
    top = float(draw(st.integers(40, 120)))
    T = [top]
    for _ in range(n - 1):
        T.append(T[-1] - draw(st.sampled_from([5.0, 10.0, 20.0])))
    H = [0.0]
    for _ in range(n - 1):
        H.append(H[-1] - draw(st.sampled_from([0.0, 10.0, 50.0, 200.0])))
    nc = draw(st.integers(1, 3))
    tc = float(draw(st.integers(int(top) + 10, int(top) + 120)))
    T_cond, Q_cond = [], []
    for _ in range(nc):
        T_cond.append(tc)
        Q_cond.append(draw(st.sampled_from([5.0, 40.0, 150.0, 600.0])))
        tc -= draw(st.sampled_from([5.0, 15.0]))
    ne = draw(st.integers(0, 2))
    return {
        "T_hot": T,
        "H_hot": H,
        "T_cond": T_cond,
        "Q_cond": Q_cond,
        "x_evap": [draw(st.sampled_from([0.0, 0.05, 0.1, 0.3])) for _ in range(ne)],
        "T_lo": float(draw(st.integers(int(T[-1]), int(T[0]) - 1))),
        "dt_range": float(draw(st.sampled_from([50.0, 100.0, 200.0]))),
        "price_ratio": draw(st.sampled_from([1.0, 2.5])),
        "target_factor": draw(st.sampled_from([1.0, 1.0, 1.5])),
    }


PARTS = [Part("cycle", eval_case, {"quick": 2000, "thorough": 60000}, strategy=strategy, min_nontrivial={"quick": 650, "thorough": 18000})]
PARTS.append(Part("carnot_helper", eval_carnot, {"quick": 1500, "thorough": 40000}, strategy=lambda tier: carnot_case(), min_nontrivial={"quick": 300, "thorough": 8000}))
MIN_SHARE = {"cycle": {"other-cycle-solved-in-between": 0.14, "evap-requested-before-cond": 0.14, "lift<5K": 0.1, "superheat": 0.2, "subcooling": 0.2}}
