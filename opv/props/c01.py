"""C01  Direct-integration energy targets equal the exact thermodynamic minimum."""
from __future__ import annotations

from fractions import Fraction as Fr

from hypothesis import strategies as st

from ..core.types import Outcome, Part
from ..gen import problems as G
from ..gen import service as S
from ..ref import cascade as C

PID = "C01"
RULE = (
    "problems of 1-8 (thorough: 1-12) streams drawn from a per-problem temperature palette (coincident / nested ranges, ~10% isothermal, "
    "only-hot / only-cold shares), label-safe zone label sets (flat, nested), utilities present or absent, optionally unit-operation "
    "targeting; oracle = rational-arithmetic cascade over the streams labelled into each zone; non-trivial = some zone holds >= 2 streams "
    "whose shifted ranges overlap or touch; distinct by canonical JSON. part retarget: one prepared zone tree targeted through the exported steps (prepare_problem, get_targets), one stream of a unit-operation zone exchanged for another (same or other kind), parents re-import, targeted again; every zone must report the exact cascade of the streams it holds now."
)
ASSUMPTIONS = [
    "generated temperatures are multiples of 1e-3 K or shared 6-dp thirds, so distinct breakpoints are >= 3.3e-4 K apart (outside the implementation's 1e-6/1e-5 merging windows)",
    "duties are positive (documented convention); heat_flow in [0.1, 1e5]",
    "zone label sets are label-safe (C10 owns hostile labels); unit-operation zones are identified through the returned tree",
    "tolerance = 1e-6 x total duty of the zone (+1e-9 absolute); table ends carry the pipeline's 4-dp rounding (5e-5)",
]


def overlapping(rs):
    for i in range(len(rs)):
        for j in range(i + 1, len(rs)):
            if rs[i].smin <= rs[j].smax and rs[j].smin <= rs[i].smax:
                return True
    return False


def classify(out: Outcome, c: C.Cascade, prefix=""):
    if not c.hot:
        out.labels.add("only-cold-streams")
    if not c.cold:
        out.labels.add("only-hot-streams")
    if c.hot and c.cold:
        if c.Qh > 0 and c.Qc > 0:
            out.labels.add("pinched")
        elif c.Qh == 0 and c.Qc == 0:
            out.labels.add("balanced")
        elif c.Qc == 0:
            out.labels.add("threshold-no-cold-utility")
        else:
            out.labels.add("threshold-no-hot-utility")
        if c.Qr > 0:
            out.labels.add("recovery>0")


def eval_case(case) -> Outcome:
    out = Outcome()
    ok, res = S.run_service(case)
    if not ok:
        out.fail("C01.sut_exception:" + res, f"service raised {res}: {S.call_sut.last_message}")
        return out
    result, master = res
    recs = S.record_map(result)
    all_rs = C.rstreams(case["streams"])
    if any(s["t_supply"] == s["t_target"] for s in case["streams"]):
        out.labels.add("isothermal")
    bps = [b for s in all_rs for b in (s.smin, s.smax)]
    if len(set(bps)) < len(bps):
        out.labels.add("coincident-breakpoints")
    if len({s["zone"] for s in case["streams"]}) > 1:
        out.labels.add("multi-zone")
    if case.get("shifted_up"):
        out.labels.add("temperatures>=1000")
    if case.get("utilities"):
        out.labels.add("utilities-given")
    if case.get("zone_tree"):
        out.labels.add("explicit-zone-tree")
    n_checked = 0
    for path, zone in S.walk(master):
        key = f"{zone.name}/{S.DI}"
        t = zone.targets.get(key)
        if t is None:
            continue
        if zone.identifier == "Unit Operation":
            out.labels.add("unit-operation-zone")
            src = [
                {"t_supply": s.t_supply, "t_target": s.t_target, "heat_flow": s.heat_flow, "dt_cont": s.dt_cont, "name": s.name}
                for s in list(zone.hot_streams) + list(zone.cold_streams)
            ]
            # a stored latent stream already carries its 0.01 K span
            rs = C.rstreams(src)
        else:
            rs = C.rstreams(S.members(case, path))
        c = C.cascade(rs)
        if path == ():
            classify(out, c)
            if overlapping(rs):
                out.nontrivial = True
        elif overlapping(rs):
            out.nontrivial = True
        eps = float(c.total) * 1e-6 + 1e-9
        n_checked += 1
        where = "/".join(path) or "<site>"
        for nm, got, exp in (
            ("Qh", t.hot_utility_target, c.Qh),
            ("Qc", t.cold_utility_target, c.Qc),
            ("Qr", t.heat_recovery_target, c.Qr),
        ):
            if abs(float(got) - float(exp)) > eps:
                out.fail(f"C01.{nm}", f"zone {where}: {nm}={float(got)!r} exact {float(exp)!r} (eps {eps:.3g}; {len(rs)} streams)")
        # serialised record (only where the name is unique in the output)
        if len(recs.get(key, [])) == 1:
            r = recs[key][0]
            for nm, got, exp in (("Qh", S.val(r.Qh), c.Qh), ("Qc", S.val(r.Qc), c.Qc), ("Qr", S.val(r.Qr), c.Qr)):
                if abs(float(got) - float(exp)) > eps:
                    out.fail(f"C01.record_{nm}", f"record {key}: {nm}={float(got)!r} exact {float(exp)!r}")
        elif key not in recs:
            out.fail("C01.record_missing", f"zone {where} has a DI target but the output has no record named {key}")
        # table ends
        pt = t.pt
        if pt is not None and len(pt) > 0:
            h = pt.col["H_net"]
            if abs(float(h[0]) - float(c.Qh)) > eps + 5.1e-5 or abs(float(h[-1]) - float(c.Qc)) > eps + 5.1e-5:
                out.fail("C01.table_ends", f"zone {where}: H_net ends ({float(h[0])!r}, {float(h[-1])!r}) vs exact ({float(c.Qh)!r}, {float(c.Qc)!r})")
    if n_checked == 0:
        out.fail("C01.no_di_target", "no zone of the returned tree carries a Direct Integration target")
    # every process zone implied by the labels must have reported
    want = {()}
    for s in case["streams"]:
        lp = S.label_path(s["zone"])
        for k in range(1, len(lp) + 1):
            want.add(lp[:k])
    have = {p for p, z in S.walk(master) if f"{z.name}/{S.DI}" in z.targets}
    for p in sorted(want - have - S.container_paths(case)):
        out.fail("C01.zone_without_target", f"zone {'/'.join(p)} implied by the labels has no DI target in the returned tree")
    return out


@st.composite
def with_explicit_tree(draw, base):
    """Same problem with a user zone tree spelling out the synthesised hierarchy (process zones only)."""
    case = draw(base)
    root = {"name": "Site", "type": "Site", "children": []}
    nodes = {(): root}
    for s in case["streams"]:
        lp = S.label_path(s["zone"])
        for k in range(1, len(lp) + 1):
            if lp[:k] not in nodes:
                node = {"name": lp[k - 1], "type": "Process Zone", "children": []}
                nodes[lp[:k]] = node
                nodes[lp[: k - 1]]["children"].append(node)
    # a labelled node must be a leaf (C10 owns labels on non-leaf nodes)
    labelled = {S.label_path(s["zone"]) for s in case["streams"]}
    if any(len(nodes[p]["children"]) > 0 for p in labelled):
        return case

    def clean(n):
        return {"name": n["name"], "type": n["type"], "children": [clean(c) for c in n["children"]] or None}

    case["zone_tree"] = clean(root)
    return case


def eval_retarget(case) -> Outcome:
    """What-if on one prepared zone tree through the exported steps (prepare_problem, get_targets): target it, exchange one
    stream of a unit-operation zone for another one, let the parents re-import their streams, target again.  Every zone's
    direct-integration targets must then be the exact cascade of the streams the zone holds *now*."""
    from OpenPinch import get_targets
    from OpenPinch.analysis.data_preparation import prepare_problem
    from OpenPinch.classes.stream import Stream
    from OpenPinch.classes.stream_collection import StreamCollection
    from OpenPinch.lib.schema import TargetInput
    from ..core.sut import call_sut

    out = Outcome()
    S.clear_graph_accumulator()

    def prep():
        req = TargetInput.model_validate({"streams": case["streams"], "utilities": case.get("utilities") or []})
        return prepare_problem(project_name="Site", streams=req.streams, utilities=req.utilities, options=req.options, zone_tree=req.zone_tree)

    ok, master = call_sut(prep)
    if not ok:
        out.fail("C01.sut_exception:" + master, f"prepare_problem raised {master}: {call_sut.last_message}")
        return out
    ok, r = call_sut(get_targets, master)
    if not ok:
        out.fail("C01.sut_exception:" + r, f"get_targets raised {r}: {call_sut.last_message}")
        return out

    def check(stage):
        for path, zone in S.walk(master):
            t = zone.targets.get(f"{zone.name}/{S.DI}")
            if t is None:
                continue
            src = [{"t_supply": x.t_supply, "t_target": x.t_target, "heat_flow": x.heat_flow, "dt_cont": x.dt_cont, "name": x.name} for x in list(zone.hot_streams) + list(zone.cold_streams)]
            c = C.cascade(C.rstreams(src))
            eps = float(c.total) * 1e-6 + 1e-9
            got = (float(t.hot_utility_target), float(t.cold_utility_target), float(t.heat_recovery_target))
            want = (float(c.Qh), float(c.Qc), float(c.Qr))
            if any(not abs(a - b) <= eps for a, b in zip(got, want)):
                out.fail(f"C01.retarget_{stage}", f"{stage}: zone {'/'.join(path) or '<site>'} reports (Qh, Qc, Qr)={got} but the exact cascade of the {len(src)} streams it holds gives {want}")
                return False
        return True

    if not check("first"):
        return out
    ops = [z for _, z in S.walk(master) if z.identifier == "Unit Operation" and not z.subzones and len(z.hot_streams) + len(z.cold_streams) == 1]
    if not ops:
        out.skip = "no-single-stream-operation-zone"
        return out
    op = ops[case["swap_idx"] % len(ops)]
    old = (list(op.hot_streams) + list(op.cold_streams))[0]
    n = case["new"]
    hot_old = len(op.hot_streams) == 1
    ts, tt = (max(n["a"], n["b"]), min(n["a"], n["b"])) if hot_old == case["same_kind"] else (min(n["a"], n["b"]), max(n["a"], n["b"]))
    new = Stream(name=old.name, t_supply=ts, t_target=tt, heat_flow=n["q"], dt_cont=n["dt"], htc=1.0)
    coll = StreamCollection()
    coll.add(new)
    empty = StreamCollection()
    if ts > tt:
        op.hot_streams, op.cold_streams = coll, empty
    else:
        op.hot_streams, op.cold_streams = empty, coll
    out.labels.add("swap-same-kind" if case["same_kind"] else "swap-other-kind")
    ok, r = call_sut(master.import_hot_and_cold_streams_from_sub_zones)
    if not ok:
        out.fail("C01.sut_exception:" + r, f"import_hot_and_cold_streams_from_sub_zones raised {r}: {call_sut.last_message}")
        return out
    ok, r = call_sut(get_targets, master)
    if not ok:
        out.fail("C01.sut_exception:" + r, f"second get_targets raised {r}: {call_sut.last_message}")
        return out
    out.nontrivial = True
    check("after_swap")
    return out


@st.composite
def retarget_case(draw, tier):
    base = draw(G.problem(min_streams=2, max_streams=6, shape="mixed", iso_share=0.0, with_utilities=False, thirds=False))
    pal = sorted({x for s in base["streams"] for x in (s["t_supply"], s["t_target"])})
    a = draw(st.sampled_from(pal)) + draw(st.sampled_from([0.0, 10.0, -15.0, 35.0]))
    b = a + draw(st.sampled_from([20.0, 45.0, 80.0]))
    base.update({"swap_idx": draw(st.integers(0, 20)), "same_kind": draw(st.sampled_from([True, True, False])), "new": {"a": round(a, 3), "b": round(b, 3), "q": float(draw(st.sampled_from([50.0, 300.0, 1200.0]))), "dt": draw(st.sampled_from([0.0, 5.0, 10.0]))}})
    return base


def strategy(tier):
    mx = 8 if tier == "quick" else 12
    opts = st.sampled_from([None, None, None, {"DO_DIRECT_OPERATION_TARGETING": True}])
    return st.one_of(
        G.problem(min_streams=3, max_streams=mx, shape="mixed", options=opts),
        G.problem(min_streams=3, max_streams=mx, shape="mixed", with_utilities=False, options=opts),
        G.problem(max_streams=mx, options=opts),
        G.problem(max_streams=mx, with_utilities=False, options=opts),
        G.problem(min_streams=2, max_streams=mx, multi_zone=True, options=opts),
        G.problem(min_streams=2, max_streams=5, iso_share=0.5, with_utilities=False),
        with_explicit_tree(G.problem(min_streams=2, max_streams=mx, multi_zone=True)),
        hot_end(G.problem(min_streams=2, max_streams=mx, shape="mixed", iso_share=0.3, options=opts)),
        G.community_problem(),
    )


def hot_end(base):
    """The same kind of problem at furnace / reformer level or entered in kelvin: every temperature moved up by
    1000 (or 273.15), so that tolerances written for 'ordinary' magnitudes meet shifted temperatures >= 1000."""

    @st.composite
    def build(draw):
        case = draw(base)
        d = draw(st.sampled_from([1000.0, 1000.0, 900.0, 273.15]))
        for x in case["streams"] + (case.get("utilities") or []):
            x["t_supply"] = round(x["t_supply"] + d, 6)
            x["t_target"] = round(x["t_target"] + d, 6)
        case["shifted_up"] = d
        return case

    return build()


PARTS = [
    Part("service", eval_case, {"quick": 2000, "thorough": 60000}, strategy=strategy, min_nontrivial={"quick": 600, "thorough": 15000}),
    Part("retarget", eval_retarget, {"quick": 300, "thorough": 8000}, strategy=lambda tier: retarget_case(tier), min_nontrivial={"quick": 80, "thorough": 2000}),
]
MIN_SHARE = {
    "service": {
        "pinched": 0.03,
        "threshold-no-cold-utility": 0.03,
        "threshold-no-hot-utility": 0.03,
        "only-hot-streams": 0.03,
        "only-cold-streams": 0.03,
        "isothermal": 0.03,
        "coincident-breakpoints": 0.03,
        "multi-zone": 0.03,
    }
}
