"""C07  Pocket-free GCC is the greatest monotone curve under the GCC."""
from __future__ import annotations

from fractions import Fraction as Fr

from hypothesis import strategies as st
from ..core.sut import hyp_target as target

from ..core.sut import call_sut
from ..core.types import Outcome, Part
from ..gen import problems as G
from ..gen import service as S
from ..ref import cascade as C
from . import _pipeline as P
from .c05 import local_cp

PID = "C07"
RULE = (
    "part direct: grand-composite shapes given straight to get_GCC_without_pockets / get_seperated_gcc_heat_load_profiles: 3-14 rows, T "
    "strictly descending (gaps 0.5-50 K), H >= 0 on a quarter-integer grid with at least one zero, built as a non-negative random walk "
    "(0-4 pockets per side, nested, closing exactly on a row, adjacent to the pinch, threshold curves, several zeros); oracle = exact "
    "running-minimum envelope with exact closure temperatures. part service: stream problems through the pipeline, same oracle from the "
    "exact cascade. non-trivial = at least one pocket closes strictly inside an interval; distinct by canonical JSON."
)
ASSUMPTIONS = [
    "direct shapes respect the routine's preconditions: H >= 0, a zero exists, rows >= 0.5 K apart, enthalpy differences 0 or >= 0.25 (nothing inside the 1e-6 tolerance band)",
    "pipeline tables carry 4-dp rounding: tolerance 5.1e-5 x (1 + local CP) + 1e-6 x total duty",
]


def eval_direct(case) -> Outcome:
    import numpy as np
    from OpenPinch.classes.problem_table import ProblemTable
    from OpenPinch.analysis.gcc_manipulation import get_GCC_without_pockets, get_seperated_gcc_heat_load_profiles

    out = Outcome()
    T = [Fr(repr(float(t))) for t in case["T"]]
    R = [Fr(repr(float(h))) for h in case["H"]]
    Te, Ne = C.envelope(T, R)
    new = [t for t in Te if t not in set(T)]
    zeros = [t for t, r in zip(T, R) if r == 0]
    hp, cp = max(zeros), min(zeros)
    n_above = sum(1 for t in new if t > hp)
    n_below = sum(1 for t in new if t < cp)
    out.nontrivial = bool(new)
    out.labels.add(f"closures-above={min(n_above, 3)}{'+' if n_above >= 3 else ''}")
    out.labels.add(f"closures-below={min(n_below, 3)}{'+' if n_below >= 3 else ''}")
    if n_above >= 2:
        out.labels.add("insertions_above_pinch>=2")
    if n_below >= 2:
        out.labels.add("insertions_below_pinch>=2")
    if R[0] == 0 or R[-1] == 0:
        out.labels.add("threshold")
    if len(zeros) >= 2:
        out.labels.add("zeros>=2")
    # a pocket that closes exactly on an existing row: envelope has a kink at an old row inside a pocket
    for i in range(1, len(T) - 1):
        e = C.interp(Te, Ne, T[i])
        if e < R[i - 1] and e == R[i] and C.interp(Te, Ne, T[i - 1]) == e and T[i] > hp and R[i] > 0:
            out.labels.add("closes-on-row-above")
    target(float(n_above + n_below), label="closures")
    pt = ProblemTable({"T": [float(t) for t in T], "H_net": [float(r) for r in R]})
    ok, res = call_sut(get_GCC_without_pockets, pt)
    if not ok:
        out.fail("C07.sut_exception:" + res, f"get_GCC_without_pockets raised {res}: {call_sut.last_message}")
        return out
    Tn = [float(x) for x in pt.col["T"]]
    Hn = [float(x) for x in pt.col["H_net"]]
    NPn = [float(x) for x in pt.col["H_net_np"]]
    scale = 1 + float(max(R))
    tol = 1e-9 * scale
    # rows: original rows plus exactly the closure temperatures
    want_rows = sorted([float(t) for t in Te], reverse=True)
    if len(Tn) != len(want_rows) or any(abs(a - b) > 1e-6 for a, b in zip(Tn, want_rows)):
        extra = [t for t in Tn if all(abs(t - w) > 1e-6 for w in want_rows)]
        missing = [w for w in want_rows if all(abs(t - w) > 1e-6 for t in Tn)]
        out.fail("C07.breakpoints", f"rows after pocket removal {Tn}: unexpected {extra}, missing closure temperatures {missing}")
    for i in range(1, len(Tn)):
        if not Tn[i] < Tn[i - 1]:
            out.fail("C07.rows_order", f"rows not strictly descending: {Tn}")
            return out
    # H_net unchanged as a function; H_net_np equals the envelope at rows and interval mid-points
    TnF = [Fr(repr(t)) for t in Tn]
    for i, t in enumerate(TnF):
        if abs(Hn[i] - float(C.interp(T, R, t))) > tol * 10:
            out.fail("C07.gcc_changed", f"H_net at T={Tn[i]} is {Hn[i]!r} but the original curve there is {float(C.interp(T, R, t))!r}")
            break
    NPf = [Fr(repr(v)) for v in NPn]
    pts = set(Te) | set(TnF)
    allp = sorted(pts, reverse=True)
    mids = [(a + b) / 2 for a, b in zip(allp, allp[1:])]
    for t in allp + mids:
        got = float(C.interp(TnF, NPf, t))
        want = float(C.interp(Te, Ne, t))
        if abs(got - want) > tol * 100:
            out.fail("C07.np_curve", f"pocket-free GCC at T={float(t)} is {got!r} but the running minimum of the GCC is {want!r}; rows {Tn}, H_net_np {NPn}, H {case['H']}")
            break
    if abs(NPn[0] - float(R[0])) > tol or abs(NPn[-1] - float(R[-1])) > tol:
        out.fail("C07.np_ends", f"pocket-free GCC ends ({NPn[0]!r}, {NPn[-1]!r}) but the GCC ends in ({float(R[0])!r}, {float(R[-1])!r})")
    # load profiles
    ok, prof = call_sut(get_seperated_gcc_heat_load_profiles, np.array(NPn))
    if not ok:
        out.fail("C07.sut_exception:" + prof, f"get_seperated_gcc_heat_load_profiles raised {prof}")
        return out
    check_profiles(out, Tn, [float(x) for x in prof["H_cold_net"]], [float(x) for x in prof["H_hot_net"]], Te, Ne, hp, cp, float(R[0]), float(R[-1]), lambda i: tol * 100, "")
    return out


def check_profiles(out, Tn, hcold, hhot, Te, Ne, hp, cp, Qh, Qc, tolf, where):
    """Net heating (H_cold_net) and cooling (H_hot_net) load profiles derived from the pocket-free GCC."""
    n = len(Tn)
    for i in range(n):
        t = Fr(repr(Tn[i]))
        e = float(C.interp(Te, Ne, t))
        want_c = e if t > hp else 0.0
        want_h = e if t < cp else 0.0
        if abs(hcold[i] - want_c) > tolf(i):
            out.fail("C07.heating_profile", f"{where}net heating load at T={Tn[i]} is {hcold[i]!r} but the pocket-free GCC above the pinch gives {want_c!r}")
            break
        if abs(abs(hhot[i]) - want_h) > tolf(i):
            out.fail("C07.cooling_profile", f"{where}net cooling load at T={Tn[i]} is {hhot[i]!r} but the pocket-free GCC below the pinch gives {want_h!r}")
            break
    for i in range(1, n):
        if hcold[i] > hcold[i - 1] + tolf(i) + tolf(i - 1):
            out.fail("C07.heating_monotone", f"{where}net heating load rises from {hcold[i - 1]!r} to {hcold[i]!r} going down to T={Tn[i]}")
            break
        if abs(hhot[i]) < abs(hhot[i - 1]) - tolf(i) - tolf(i - 1):
            out.fail("C07.cooling_monotone", f"{where}net cooling load falls from {hhot[i - 1]!r} to {hhot[i]!r} going down to T={Tn[i]}")
            break
    if abs(hcold[0] - Qh) > tolf(0) or abs(abs(hhot[-1]) - Qc) > tolf(n - 1):
        out.fail("C07.profile_ends", f"{where}load profiles end in ({hcold[0]!r}, {hhot[-1]!r}) but (Qh, Qc) = ({Qh!r}, {Qc!r})")


def eval_service(case) -> Outcome:
    out = Outcome()
    an = P.Analysis(case, out, "C07")
    if not an.ok:
        return out
    P.classify_site(out, an)
    for path, zone, c in an.zones:
        t = an.target(zone, S.DI)
        if t is None or not c.T or min(c.R) != 0:
            continue
        if any(0 < r < Fr(1, 10000) for r in c.R):
            out.skip = out.skip or ("ambiguous-zero" if path == () else None)
            continue
        where = ("/".join(path) or "<site>") + ": "
        Te, Ne = C.envelope(c.T, c.R)
        new = [x for x in Te if x not in set(c.T)]
        zeros = [tt for tt, r in zip(c.T, c.R) if r == 0]
        hp, cp = max(zeros), min(zeros)
        if new:
            out.nontrivial = True
        if sum(1 for x in new if x > hp) >= 2:
            out.labels.add("insertions_above_pinch>=2")
        if sum(1 for x in new if x < cp) >= 2:
            out.labels.add("insertions_below_pinch>=2")
        eps = P.eps_of(c)
        pt = t.pt
        Tn = [float(x) for x in pt.col["T"]]
        NPn = [float(x) for x in pt.col["H_net_np"]]
        tols = [5.1e-5 * (1 + float(local_cp(c, Fr(repr(x)), True))) + eps for x in Tn]
        for i, x in enumerate(Tn):
            want = float(C.interp(Te, Ne, Fr(repr(x))))
            if abs(NPn[i] - want) > tols[i]:
                out.fail("C07.np_curve", f"{where}pocket-free GCC at T*={x} is {NPn[i]!r} but the running minimum of the exact GCC is {want!r} (tol {tols[i]:.3g})")
                break
        for x in new:
            if all(abs(float(x) - y) > 1.1e-4 for y in Tn):
                out.fail("C07.breakpoints", f"{where}pocket closes at T*={float(x)} but the table has no row there (rows {Tn})")
                break
        check_profiles(out, Tn, [float(v) for v in pt.col["H_cold_net"]], [float(v) for v in pt.col["H_hot_net"]], Te, Ne, hp, cp, float(c.Qh), float(c.Qc), lambda i: tols[i], where)
    return out


@st.composite
def gcc_shape(draw):
    n = draw(st.integers(3, 14))
    top = float(draw(st.integers(50, 400)))
    gaps = draw(st.lists(st.sampled_from([0.5, 1.0, 2.0, 5.0, 10.0, 20.0, 50.0]), min_size=n - 1, max_size=n - 1))
    T = [top]
    for g in gaps:
        T.append(T[-1] - g)
    steps = draw(st.lists(st.one_of(st.integers(-40, 40), st.sampled_from([0, 0, 4, -4, 8, -8, 20, -20, 1, -1])), min_size=n - 1, max_size=n - 1))
    H = [draw(st.integers(0, 60))]
    for s in steps:
        H.append(max(0, H[-1] + s))
    mode = draw(st.integers(0, 9))
    m = min(H)
    H = [h - m for h in H]
    if mode == 0:  # threshold: zero at the top
        H[0] = 0
    elif mode == 1:  # threshold: zero at the bottom
        H[-1] = 0
    elif mode == 2 and n >= 5:  # two pinches
        H[draw(st.integers(1, n - 2))] = 0
    return {"T": T, "H": [h / 4 for h in H]}


def strategy_service(tier):
    mx = 8 if tier == "quick" else 12
    return G.with_options(st.one_of(
        G.gcc_problem(max_rows=14),
        G.gcc_problem(max_rows=14, with_utilities=False),
        G.problem(min_streams=4, max_streams=mx, shape="mixed", thirds=False),
        G.problem(min_streams=5, max_streams=mx, shape="mixed", thirds=False, iso_share=0.0, with_utilities=False),
        G.problem(min_streams=3, max_streams=mx, shape="mixed", multi_zone=True),
    ))


PARTS = [
    Part("direct", eval_direct, {"quick": 5000, "thorough": 200000}, strategy=lambda tier: gcc_shape(), min_nontrivial={"quick": 1500, "thorough": 40000}),
    Part("service", eval_service, {"quick": 500, "thorough": 10000}, strategy=strategy_service, min_nontrivial={"quick": 100, "thorough": 2000}),
]
MIN_SHARE = {"direct": {"insertions_above_pinch>=2": 0.04, "insertions_below_pinch>=2": 0.06, "threshold": 0.1, "zeros>=2": 0.1}}

FUZZ = {"direct": None}  # parts also driven by the coverage-guided supplement (thorough tier)
