"""C13  Graph payloads reproduce the curves of the problem tables."""
from __future__ import annotations

import math

from fractions import Fraction as Fr

from hypothesis import strategies as st

from ..core.types import Outcome, Part
from ..gen import problems as G
from ..gen import service as S
from . import _pipeline as P

PID = "C13"
RULE = (
    "problems (2-8 streams, thorough 2-12; 1-3 zones so that total-site graph sets exist; utilities none / ladders) crossed with the "
    "graph-affecting options DO_BALANCED_CC, DO_VERTICAL_GCC, DO_ASSITED_HT; oracle: for every target of the returned tree the emitted graph "
    "set is compared with the table slices the library stores on that target (source of truth): every emitted point lies within 0.0051 "
    "(Chebyshev) of a table row, in table order; every table row inside the non-flat extent lies within 0.011 (Chebyshev, point to "
    "polyline) of the emitted curve; per segment the colour follows the sign of the enthalpy change and no step inside a segment has the "
    "opposite sign; extents equal the stream duties (composite curves), Qh / Qc (grand composite) , the summed zonal utility duties (total-site utility profiles) and the duties assigned to them (site source and sink profiles); the table stored behind each emitted graph is, column by column, a slice of the target's own problem table (real scale for 'Composite Curves', shifted for 'Shifted Composite Curves' and the GCC); graph-set keys = record names, "
    "names match, types are documented GraphType values, none twice, DI sets hold CC, SCC, GCC and total-site sets hold TSP, SUGCC. "
    "non-trivial = some emitted curve has >= 4 vertices; distinct by canonical JSON."
)
ASSUMPTIONS = [
    "the library's stored table slices (Zone.targets[...].graphs) are the reference for the emitted curves; their own correctness is C05/C07's business",
    "display rounding: tables carry 4 dp, emitted points 2 dp",
]

LEGEND = {"H_net": "GCC", "H_net_np": "GCC (No Pockets)", "H_net_vert": "Vertical GCC", "H_net_actual": "Assisted GCC", "H_net_ut": "Utility GCC"}
COLOUR = {"HotS": 0, "ColdS": 1, "HotU": 2, "ColdU": 3, "Other": 4}


def cheb_seg(p, a, b):
    """Chebyshev distance from point p to segment ab (exact: the objective is convex piecewise linear in t)."""
    px, py = p
    ax, ay = a
    dx, dy = b[0] - ax, b[1] - ay
    cands = {0.0, 1.0}
    if dx:
        cands.add((px - ax) / dx)
    if dy:
        cands.add((py - ay) / dy)
    for s in (1, -1):
        den = dx - s * dy
        if den:
            cands.add(((px - ax) - s * (py - ay)) / den)
    best = math.inf
    for t in cands:
        t = min(1.0, max(0.0, t))
        best = min(best, max(abs(ax + t * dx - px), abs(ay + t * dy - py)))
    return best


def cheb_poly(p, poly):
    if len(poly) == 1:
        return max(abs(p[0] - poly[0][0]), abs(p[1] - poly[0][1]))
    return min(cheb_seg(p, poly[i], poly[i + 1]) for i in range(len(poly) - 1))


def extent(rows):
    """Indices (start, end) of the non-flat extent of a table curve [(x, y)], or None when flat."""
    xs = [r[0] for r in rows]
    if max(xs) - min(xs) < 0.011:
        return None
    start = next(i for i in range(len(xs)) if abs(xs[i] - xs[0]) > 1e-6) - 1
    end = len(xs) - next(i for i in range(len(xs)) if abs(xs[len(xs) - 1 - i] - xs[-1]) > 1e-6)
    return start, end


def check_curve(out: Outcome, where, rows, pts):
    """rows: table curve [(x, y)] top to bottom; pts: emitted [(x, y)]."""
    import numpy as np

    if any(math.isnan(v) for r in rows for v in r):
        if pts:
            out.fail("C13.curve_from_nan_column", f"{where}: the table column is NaN but {len(pts)} point(s) were emitted")
        return
    ext = extent(rows)
    if ext is None:
        if len(pts) > 0 and max(p[0] for p in pts) - min(p[0] for p in pts) > 0.011:
            out.fail("C13.flat_curve_emitted", f"{where}: table curve is flat but the emitted points vary: {pts[:6]}")
        return
    if len(pts) < 2:
        out.fail("C13.curve_missing", f"{where}: table curve spans {rows[ext[0]]}..{rows[ext[1]]} but {len(pts)} point(s) were emitted")
        return
    if len(pts) >= 4:
        out.nontrivial = True
    # every emitted point is a table row (display rounding), in table order
    j = 0
    for p in pts:
        while j < len(rows) and not (abs(rows[j][0] - p[0]) <= 0.0051 and abs(rows[j][1] - p[1]) <= 0.0051):
            j += 1
        if j == len(rows):
            out.fail("C13.point_not_on_curve", f"{where}: emitted point {p} is not a row of the table curve (in order); distance to the curve {cheb_poly(p, rows):.4g}")
            return
        j += 1
    # nothing genuine dropped
    worst, wr = 0.0, None
    for r in rows[ext[0] : ext[1] + 1]:
        d = cheb_poly(r, pts)
        if d > worst:
            worst, wr = d, r
    if worst > 0.011:
        out.fail("C13.row_not_reproduced", f"{where}: table row {wr} lies {worst:.4g} from the emitted polyline ({ext[1] - ext[0] + 1} rows in the extent, {len(pts)} points emitted)")


SOURCE = {"Composite Curves": ["pt_real"], "Shifted Composite Curves": ["pt"], "Grand Composite Curve": ["pt"], "Grand Composite Curve (Real)": ["pt_real"]}


def check_source(out: Outcome, where, tbl, t, gtype):
    """The table behind a graph is a slice of the target's own problem table (real scale for the plain composite
    curves, shifted for the shifted ones and the GCC; either for the rest), column by column under the same name."""
    import numpy as np

    cols = list(tbl.columns)
    tried = []
    for which in SOURCE.get(gtype, ["pt", "pt_real"]):
        src = getattr(t, which, None)
        if src is None:
            continue
        bad = None
        for c in cols:
            try:
                a, b = np.asarray(tbl.col[c], float), np.asarray(src.col[c], float)
            except Exception:  # noqa: BLE001 - column absent from that table
                bad = f"{c} absent"
                break
            if a.shape != b.shape or not np.allclose(a, b, rtol=0.0, atol=5.1e-5, equal_nan=True):
                bad = f"{c} differs"
                break
        if bad is None:
            return
        tried.append(f"{which}: {bad}")
    out.fail("C13.table_not_a_slice", f"{where}: the stored graph table {cols} is not a slice of the target's problem table ({'; '.join(tried)})")


def eval_case(case) -> Outcome:
    from OpenPinch.lib.enums import GraphType

    out = Outcome()
    if case.get("decoy"):
        # another problem (other zone names) is analysed first in the same process: the graph sets returned for the
        # case must still be exactly those of its own records
        S.run_service(DECOY)
        out.labels.add("after-another-analysis")
    an = P.Analysis(case, out, "C13", clear=not case.get("decoy"))
    if not an.ok:
        return out
    P.classify_site(out, an)
    for k, v in (case.get("options") or {}).items():
        out.labels.add(f"{k}={v}")
    gsets = an.result.graphs or {}
    valid_types = {g.value for g in GraphType}
    names = []
    for path, zone in S.walk(an.master):
        for key, t in zone.targets.items():
            names.append(key)
    if sorted(set(names)) != sorted(gsets.keys()):
        # duplicate record names (unit-operation zones) collapse in a dict: only compare as sets
        out.fail("C13.graph_set_keys", f"graph sets {sorted(gsets.keys())} but the target records are {sorted(set(names))}")
    seen_names = set()
    for path, zone in S.walk(an.master):
        for key, t in zone.targets.items():
            if names.count(key) > 1 or key in seen_names:
                continue  # ambiguous record name: cannot tell which zone the set belongs to
            seen_names.add(key)
            gs = gsets.get(key)
            if gs is None:
                continue
            if gs.name != key:
                out.fail("C13.graph_set_name", f"graph set under key {key!r} is named {gs.name!r}")
            types = [g.type for g in gs.graphs]
            if len(set(types)) != len(types):
                out.fail("C13.graph_type_twice", f"{key}: graph types {types}")
            if not set(types) <= valid_types:
                out.fail("C13.graph_type_unknown", f"{key}: graph types {types}")
            kind = key.split("/")[-1]
            need = {"Direct Integration": {"Composite Curves", "Shifted Composite Curves", "Grand Composite Curve"}, "Total Site Target": {"Total Site Profiles", "Site Utility Grand Composite Curve"}}.get(kind, set())
            if not need <= set(types):
                out.fail("C13.graph_types_missing", f"{key}: graph types {types} lack {sorted(need - set(types))}")
            c = next((cz for p, z, cz in an.zones if z is zone), None)
            for g in gs.graphs:
                tbl = t.graphs.get(g.type)
                if tbl is None:
                    out.fail("C13.graph_without_table", f"{key}: graph {g.type} has no stored table")
                    continue
                T = [float(v) for v in tbl.col["T"]]
                segs = [(s.title, s.colour, [(dp.x, dp.y) for dp in s.data_points]) for s in g.segments]
                where = f"{key} [{g.type}]"
                check_source(out, where, tbl, t, g.type)
                if g.type == "Total Site Profiles":
                    tz = an.target(zone, S.TZ)
                    if tz is not None and c is not None:
                        for col, us, nm in (("H_hot_utility", tz.hot_utilities, "hot"), ("H_cold_utility", tz.cold_utilities, "cold")):
                            vals = [float(v) for v in tbl.col[col]]
                            span = max(vals) - min(vals)
                            want = sum(float(u.heat_flow) for u in us)
                            if abs(span - want) > 0.011 + P.eps_of(c):
                                out.fail("C13.extent", f"{where} {col}: the {nm}-utility profile spans {span!r} but the zones use {want!r} of {nm} utility in total")
                        # the zones' net heat sinks (served by hot utility) and net heat sources (served by cold utility)
                        for col, want, nm in (("H_cold_net", sum(float(u.heat_flow) for u in tz.hot_utilities), "sink"), ("H_hot_net", sum(float(u.heat_flow) for u in tz.cold_utilities), "source")):
                            vals = [float(v) for v in tbl.col[col]]
                            span = max(vals) - min(vals)
                            # the table's temperatures are rounded to 4 dp: a latent (0.01 K) stream turns that into enthalpy
                            if abs(span - want) > 0.011 + P.eps_of(c) + 1.1e-4 * float(sum((x.cp for x in c.hot + c.cold), Fr(0))):
                                out.fail("C13.extent", f"{where} {col}: the site {nm} profile spans {span!r} but the zones' assigned {'hot' if nm == 'sink' else 'cold'} utility duties sum to {want!r}")
                if g.type in ("Composite Curves", "Shifted Composite Curves", "Balanced Composite Curves", "Total Site Profiles"):
                    cols = {
                        "Composite Curves": [("H_hot", "Hot CC", 0), ("H_cold", "Cold CC", 1)],
                        "Shifted Composite Curves": [("H_hot", "Hot CC", 0), ("H_cold", "Cold CC", 1)],
                        "Balanced Composite Curves": [("H_hot_balanced", "Hot CC", 0), ("H_cold_balanced", "Cold CC", 1)],
                        "Total Site Profiles": [("H_hot_net", "Hot CC", 0), ("H_cold_net", "Cold CC", 1), ("H_hot_utility", "Hot Utility", 2), ("H_cold_utility", "Cold Utility", 3)],
                    }[g.type]
                    if len(segs) != len(cols):
                        out.fail("C13.segment_count", f"{where}: {len(segs)} curves emitted for {len(cols)} table columns")
                        continue
                    for (col, title, colour), (stitle, scol, pts) in zip(cols, segs):
                        rows = [(float(x), y) for x, y in zip(tbl.col[col], T)]
                        if stitle != title or scol != colour:
                            out.fail("C13.curve_kind", f"{where}: curve for {col} is titled {stitle!r} colour {scol} (expected {title!r}, {colour})")
                        check_curve(out, f"{where} {col}", rows, pts)
                        if g.type in ("Composite Curves", "Shifted Composite Curves") and c is not None and len(pts) >= 2:
                            span = max(p[0] for p in pts) - min(p[0] for p in pts)
                            want = float(c.SH if col == "H_hot" else c.SC)
                            if abs(span - want) > 0.011 + P.eps_of(c):
                                out.fail("C13.extent", f"{where} {col}: emitted curve spans {span!r} but the stream duty is {want!r}")
                else:
                    # GCC-like: several series, each a run of segments titled "<legend> <n>"
                    series_cols = {
                        "Grand Composite Curve": ["H_net", "H_net_np", "H_net_vert", "H_net_actual", "H_net_ut"],
                        "Site Utility Grand Composite Curve": ["H_net_ut"],
                        "Grand Composite Curve with Heat Pump": ["H_net_with_air", "H_net_hp_pro"],
                    }.get(g.type, [])
                    for col in series_cols:
                        legend = LEGEND.get(col, col)
                        mine = [(ti, co, pts) for ti, co, pts in segs if ti.rsplit(" ", 1)[0] == legend]
                        rows = [(float(x), y) for x, y in zip(tbl.col[col], T)]
                        allpts = []
                        for ti, co, pts in mine:
                            if allpts and pts and allpts[-1] == pts[0]:
                                allpts += pts[1:]
                            else:
                                allpts += pts
                            # classification follows the sign of the enthalpy change
                            is_ut = col in ("H_net_ut", "H_net_hp_pro")
                            steps = [a[0] - b[0] for a, b in zip(pts, pts[1:])]
                            pos = any(s > 0.011 for s in steps)
                            neg = any(s < -0.011 for s in steps)
                            if pos and neg:
                                out.fail("C13.segment_mixed_sign", f"{where} {col}: segment {ti!r} contains enthalpy steps of both signs: {pts}")
                            elif pos or neg:
                                want = (COLOUR["HotU"] if pos else COLOUR["ColdU"]) if is_ut else (COLOUR["ColdS"] if pos else COLOUR["HotS"])
                                if co != want:
                                    out.fail("C13.segment_colour", f"{where} {col}: segment {ti!r} has colour {co} but its enthalpy {'falls' if pos else 'rises'} downwards (expected {want})")
                        check_curve(out, f"{where} {col}", rows, allpts)
                        if col == "H_net" and g.type == "Grand Composite Curve" and c is not None and len(allpts) >= 2:
                            if abs(allpts[0][0] - float(c.Qh)) > 0.011 + P.eps_of(c) or abs(allpts[-1][0] - float(c.Qc)) > 0.011 + P.eps_of(c):
                                out.fail("C13.extent", f"{where}: GCC runs from H={allpts[0][0]!r} to H={allpts[-1][0]!r} but (Qh, Qc) = ({float(c.Qh)!r}, {float(c.Qc)!r})")
                    known = {LEGEND.get(cn, cn) for cn in series_cols}
                    for ti, co, pts in segs:
                        if ti.rsplit(" ", 1)[0] not in known:
                            out.fail("C13.segment_unknown_series", f"{where}: segment titled {ti!r} belongs to no documented series")
    return out


DECOY = {
    "streams": [
        {"zone": "ZZ decoy", "name": "H", "t_supply": 150.0, "t_target": 60.0, "heat_flow": 900.0, "dt_cont": 5.0, "htc": 1.0},
        {"zone": "ZZ other", "name": "C", "t_supply": 40.0, "t_target": 120.0, "heat_flow": 700.0, "dt_cont": 5.0, "htc": 1.0},
    ],
    "utilities": [],
}


def with_decoy(base):
    return st.tuples(base, st.booleans()).map(lambda t: dict(t[0], decoy=t[1]))


def strategy(tier):
    return with_decoy(_strategy(tier))


def _strategy(tier):
    mx = 8 if tier == "quick" else 12
    opts = st.fixed_dictionaries({}, optional={"DO_BALANCED_CC": st.booleans(), "DO_VERTICAL_GCC": st.booleans(), "DO_ASSITED_HT": st.booleans()}).map(lambda d: d or None)
    return st.one_of(
        G.problem(min_streams=3, max_streams=mx, shape="mixed", options=opts),
        G.problem(min_streams=2, max_streams=mx, shape="mixed", multi_zone=True, options=opts),
        G.problem(min_streams=2, max_streams=mx, options=opts, thirds=False),
        G.problem(min_streams=4, max_streams=mx, shape="mixed", with_utilities=False, options=opts, iso_share=0.0),
        G.community_problem(),
    )


PARTS = [Part("service", eval_case, {"quick": 800, "thorough": 20000}, strategy=strategy, min_nontrivial={"quick": 300, "thorough": 8000})]
MIN_SHARE = {"service": {"after-another-analysis": 0.25, "multi-zone": 0.2, "DO_VERTICAL_GCC=True": 0.067, "DO_ASSITED_HT=True": 0.058, "DO_BALANCED_CC=False": 0.087}}
