"""C14  The service is total and well-formed on every valid problem."""
from __future__ import annotations

import copy
import json
import math

from hypothesis import strategies as st

from ..core.sut import call_sut
from ..core.types import Outcome, Part
from ..gen import problems as G
from ..gen import service as S
from ..ref import cascade as C

PID = "C14"
RULE = (
    "the widest sound generator: 1-8 (thorough 1-12) streams incl. single stream, only hot, only cold, isothermal, zero contributions, "
    "duplicate names, utilities that are never needed or inactive, numbers as floats or {value, units} objects, label-safe zone labels or "
    "a small explicit zone tree; crossed with the analysis options wired into the pipeline (DO_DIRECT_OPERATION_TARGETING, DO_BALANCED_CC, "
    "DO_AREA_TARGETING, DO_VERTICAL_GCC, DO_ASSITED_HT, DO_EXERGY_TARGETING, DO_INDIRECT_PROCESS_TARGETING; heat-pump targeting at a "
    "small rate because it runs a global optimiser) and numeric options in their ranges. oracle (validity predicate): no exception; the "
    "result re-validates against the output schema; it is JSON-serialisable; every number is finite; one Direct-Integration record per "
    "zone of the harness-computed tree; every reported temperature (pinches, graph ordinates) lies inside the envelope of the input "
    "stream and utility temperatures widened by the contributions; a second identical call returns an identical dump. non-trivial = at "
    "least one non-default option or a degenerate shape; distinct by canonical JSON."
)
ASSUMPTIONS = [
    "DO_TURBINE_WORK / DO_TURBINE_TARGETING are not 'supported': their parameters are commented out of Configuration (every input raises AttributeError); they are excluded and this is recorded in DESIGN.md",
    "envelope widening = max stream contribution + max utility contribution (incl. the DT_CONT option used for default utilities) + DT_PHASE_CHANGE + 0.02 K",
    "the shared graph accumulator is cleared before each call (C11 owns purity)",
]

WIRED_FLAGS = ["DO_DIRECT_OPERATION_TARGETING", "DO_BALANCED_CC", "DO_AREA_TARGETING", "DO_VERTICAL_GCC", "DO_ASSITED_HT", "DO_EXERGY_TARGETING", "DO_INDIRECT_PROCESS_TARGETING"]


def plain(v):
    return v["value"] if isinstance(v, dict) else v


def plain_case(case):
    """Same case with every {value, units} wrapper removed (for the reference side)."""
    c = copy.deepcopy(case)
    for s in c["streams"]:
        for k in ("t_supply", "t_target", "heat_flow", "dt_cont", "htc"):
            s[k] = plain(s[k])
    for u in c.get("utilities", []):
        for k in ("t_supply", "t_target", "heat_flow", "dt_cont", "htc", "price"):
            if u.get(k) is not None:
                u[k] = plain(u[k])
    return c


def walk_numbers(o, path=""):
    if isinstance(o, bool) or o is None or isinstance(o, str):
        return
    if isinstance(o, (int, float)):
        yield path, o
    elif isinstance(o, dict):
        for k, v in o.items():
            yield from walk_numbers(v, f"{path}.{k}")
    elif isinstance(o, (list, tuple)):
        for i, v in enumerate(o):
            yield from walk_numbers(v, f"{path}[{i}]")


def eval_case(case) -> Outcome:
    from OpenPinch.lib.schema import TargetOutput

    out = Outcome()
    pc = plain_case(case)
    opts = case.get("options") or {}
    for k, v in opts.items():
        if isinstance(v, bool):
            out.labels.add(f"{k}={v}")
            out.rc.add(f"{k}={v}")
        else:
            out.labels.add(f"opt:{k}")
    rs = C.rstreams(pc["streams"])
    hot = [s for s in rs if s.kind == "H"]
    cold = [s for s in rs if s.kind == "C"]
    shapes = []
    if len(pc["streams"]) == 1:
        shapes.append("single-stream")
    if not cold:
        shapes.append("only-hot")
    if not hot:
        shapes.append("only-cold")
    if any(s["t_supply"] == s["t_target"] for s in pc["streams"]):
        shapes.append("isothermal")
    if all(s["dt_cont"] == 0 for s in pc["streams"]):
        shapes.append("zero-contributions")
    if len({s["name"] for s in pc["streams"]}) < len(pc["streams"]):
        shapes.append("duplicate-names")
    if any(isinstance(s["t_supply"], dict) for s in case["streams"]):
        shapes.append("value-with-unit")
    spell = {isinstance(x.get(k), dict) for x in case["streams"] + case.get("utilities", []) for k in ("t_supply", "t_target")}
    if len(spell) == 2:
        shapes.append("mixed-spellings")
    if case.get("zone_tree"):
        shapes.append("explicit-zone-tree")
        if case["zone_tree"].get("type") in S.CONTAINER_TYPES:
            shapes.append("community-or-region-root")
    out.labels.update(shapes)
    if not hot:
        out.rc.add("no-hot-streams")
    if not cold:
        out.rc.add("no-cold-streams")
    if opts.get("DO_AREA_TARGETING") and (min(float(s.dt) for s in rs) == 0 or any(u.get("active", True) and u["dt_cont"] == 0 for u in pc.get("utilities", [])) or float(opts.get("DT_CONT", 5)) <= 0):
        out.rc.add("area-targeting-with-a-zero-contribution")
    out.nontrivial = bool(opts) or bool(shapes)
    from . import _pipeline as P

    P.root_causes_of_case(out, pc, C.cascade(rs))
    if opts.get("DO_AREA_TARGETING") and "default-cu-suppressed-without-cover" in out.rc:
        out.rc.add("area-targeting-with-unallocated-cold-utility")
    ok, res = S.run_service(case, full=False)
    if not ok:
        out.fail("C14.sut_exception:" + res, f"service raised {res}: {call_sut.last_message}")
        return out
    result = res
    # --- schema round trip, JSON, finiteness
    ok1, dump = call_sut(result.model_dump)
    if not ok1:
        out.fail("C14.model_dump", f"model_dump raised {dump}")
        return out
    ok2, again = call_sut(TargetOutput.model_validate, dump)
    if not ok2:
        out.fail("C14.schema_roundtrip", f"TargetOutput.model_validate(model_dump()) raised {again}: {call_sut.last_message}")
    ok3, js = call_sut(result.model_dump_json)
    if not ok3:
        out.fail("C14.json", f"model_dump_json raised {js}: {call_sut.last_message}")
    else:
        try:
            json.loads(js)
        except Exception as e:  # noqa: BLE001
            out.fail("C14.json", f"model_dump_json output does not parse: {e}")
    bad = [(p, v) for p, v in walk_numbers(dump) if isinstance(v, float) and not math.isfinite(v)]
    if bad:
        out.fail("C14.finite", f"{len(bad)} non-finite number(s), e.g. {bad[:3]}")
    # --- one DI record per zone
    di = [t.name for t in result.targets if t.name.endswith("/" + S.DI)]
    if case.get("zone_tree"):
        def count(node):  # communities and regions only group sites; they are not targeted themselves
            return (0 if node.get("type") in S.CONTAINER_TYPES else 1) + sum(count(c) for c in (node.get("children") or []))
        want = count(case["zone_tree"])
    else:
        paths = {()}
        for s in pc["streams"]:
            if s["zone"]:
                lp = S.label_path(s["zone"])
                for k in range(1, len(lp) + 1):
                    paths.add(lp[:k])
        want = len(paths)
        if opts.get("DO_DIRECT_OPERATION_TARGETING"):
            want += sum(1 for s in pc["streams"] if s["zone"])
    if len(di) != want:
        out.fail("C14.di_record_per_zone", f"{len(di)} Direct-Integration records {sorted(di)} but the zone tree has {want} zone(s)")
    if len(set(di)) < len(di):
        out.labels.add("duplicate-record-names")
    # --- temperature envelope
    temps = [float(x) for s in rs for x in (s.tmin, s.tmax)]
    sdts = [float(s.dt) for s in rs]
    udts = [max(0.0, float(opts.get("DT_CONT", 5)))]
    for u in pc.get("utilities", []):
        if u.get("active", True):
            temps += [u["t_supply"], u["t_target"]]
            udts.append(u["dt_cont"])
    # a stream bound shifted by its own contribution, then a (default) utility placed its contribution + phase change beyond
    W = max(sdts) + max(udts) + float(opts.get("DT_PHASE_CHANGE", 0.1) if opts.get("DT_PHASE_CHANGE", 0.1) > 0 else 0.01) + 0.02 + 0.006
    if opts.get("DT_PHASE_CHANGE", 0.1) <= 0:
        out.labels.add("opt:DT_PHASE_CHANGE<=0")
    lo, hi = min(temps) - W, max(temps) + W
    for t in result.targets:
        for nm in ("cold_temp", "hot_temp"):
            v = S.val(getattr(t.temp_pinch, nm))
            if v is not None and not (lo <= v <= hi):
                out.fail("C14.envelope_pinch", f"record {t.name}: pinch {nm}={v!r} outside the input envelope [{lo}, {hi}]")
    worst = None
    for key, gs in (result.graphs or {}).items():
        for g in gs.graphs:
            for sgm in g.segments:
                for dp in sgm.data_points:
                    if isinstance(dp.y, float) and math.isfinite(dp.y) and not (lo <= dp.y <= hi):
                        if worst is None or abs(dp.y) > abs(worst[3]):
                            worst = (key, g.type, sgm.title, dp.y)
    if worst:
        out.fail("C14.envelope_graph", f"graph {worst[0]} [{worst[1]}] segment {worst[2]!r} has a point at T={worst[3]!r}, outside the input envelope [{lo}, {hi}]")
    # --- repeatable
    ok4, res2 = S.run_service(case, full=False)
    if not ok4:
        out.fail("C14.repeat", f"the second identical call raised {res2}")
    else:
        d2 = res2.model_dump()
        if json.dumps(dump, sort_keys=True, default=str) != json.dumps(d2, sort_keys=True, default=str):
            diff = next((p for (p, v), (p2, v2) in zip(walk_numbers(dump), walk_numbers(d2)) if v != v2 and not (v != v and v2 != v2)), "structure")
            out.fail("C14.repeat", f"the second identical call returned a different result (first difference at {diff})")
    # --- repeated with the very same payload object (a caller keeping its request around): plain dictionary, dictionary
    #     whose streams / utilities / zone tree are already schema objects (the README form), or a validated model
    reuse = case.get("reuse")
    if reuse:
        from OpenPinch.lib.schema import StreamSchema, TargetInput, UtilitySchema, ZoneTreeSchema
        from OpenPinch.main import pinch_analysis_service

        out.labels.add("reuse:" + reuse)
        payload = copy.deepcopy({k: v for k, v in case.items() if k in ("streams", "utilities", "options", "zone_tree") and v is not None})
        payload = S.apply_spelling(payload, case.get("spelling"))
        okp = True
        if reuse == "dict_of_models":
            okp, built = call_sut(lambda: dict(payload, streams=[StreamSchema.model_validate(x) for x in payload["streams"]], utilities=[UtilitySchema.model_validate(x) for x in payload.get("utilities", [])], **({"zone_tree": ZoneTreeSchema.model_validate(payload["zone_tree"])} if payload.get("zone_tree") else {})))
        elif reuse == "model":
            okp, built = call_sut(TargetInput.model_validate, payload)
        else:
            built = payload
        if not okp:
            out.fail("C14.sut_exception:" + built, f"building the {reuse} payload raised {built}: {call_sut.last_message}")
        else:
            for k in (1, 2):
                S.clear_graph_accumulator()
                okr, r = call_sut(pinch_analysis_service, built, "Site")
                if not okr:
                    out.fail("C14.repeat_same_object", f"call {k} with the same {reuse} payload object raised {r}: {call_sut.last_message}")
                    break
                dk = r.model_dump()
                if json.dumps(dump, sort_keys=True, default=str) != json.dumps(dk, sort_keys=True, default=str):
                    diff = next((p for (p, v), (p2, v2) in zip(walk_numbers(dump), walk_numbers(dk)) if v != v2 and not (v != v and v2 != v2)), "structure")
                    out.fail("C14.repeat_same_object", f"call {k} with the same {reuse} payload object differs from the first result (first difference at {diff})")
                    break
    return out


# ------------------------------------------------------------------------------------- generators
def vu(units):
    return lambda v: {"value": v, "units": units}


@st.composite
def wide_problem(draw, tier, hp=False):
    mx = 8 if tier == "quick" else 12
    shape = draw(st.sampled_from([None, None, None, "only-hot", "only-cold", "mixed"]))
    n_min = draw(st.sampled_from([1, 1, 2, 3]))
    case = draw(G.problem(min_streams=n_min, max_streams=n_min if n_min == 1 and draw(st.booleans()) else (3 if hp else mx), shape=shape, iso_share=draw(st.sampled_from([0.0, 0.1, 0.5]))))
    if draw(st.integers(0, 3)) == 0:
        for s in case["streams"]:
            s["dt_cont"] = 0.0
    mode = draw(st.integers(0, 5))
    if mode == 1:
        # mixed spellings: every number independently a bare float or a value-with-unit object, unit strings vary
        def maybe(v, units):
            k = draw(st.integers(0, 2))
            return v if k == 0 or v is None else {"value": v, "units": units[k - 1]}

        for s in case["streams"]:
            s["t_supply"] = maybe(s["t_supply"], ["degC", "C"])
            s["t_target"] = maybe(s["t_target"], ["degC", "C"])
            s["heat_flow"] = maybe(s["heat_flow"], ["kW", "kJ/s"])
            s["dt_cont"] = maybe(s["dt_cont"], ["degC", "K"])
            s["htc"] = maybe(s["htc"], ["kW/m2/K", "kW/m^2/degC"])
        for u in case["utilities"]:
            u["t_supply"] = maybe(u["t_supply"], ["degC", "C"])
            u["t_target"] = maybe(u["t_target"], ["degC", "C"])
            u["dt_cont"] = maybe(u["dt_cont"], ["degC", "K"])
            u["htc"] = maybe(u["htc"], ["kW/m2/K", "kW/m^2/degC"])
            u["price"] = maybe(u["price"], ["$/MWh", "EUR/MWh"])
    if mode == 0:  # numbers as value-with-unit objects
        for s in case["streams"]:
            s["t_supply"] = vu("degC")(s["t_supply"])
            s["t_target"] = vu("degC")(s["t_target"])
            s["heat_flow"] = vu("kW")(s["heat_flow"])
            s["dt_cont"] = vu("degC")(s["dt_cont"])
            s["htc"] = vu("kW/m2/K")(s["htc"])
        for u in case["utilities"]:
            for k, un in (("t_supply", "degC"), ("t_target", "degC"), ("dt_cont", "degC"), ("htc", "kW/m2/K"), ("price", "$/MWh")):
                u[k] = vu(un)(u[k])
            if u.get("heat_flow") is not None:
                u["heat_flow"] = vu("kW")(u["heat_flow"])
    opts = {}
    if hp:
        opts[draw(st.sampled_from(["DO_PROCESS_HP_TARGETING", "DO_UTILITY_HP_TARGETING"]))] = True
        opts["MAX_HP_MULTISTART"] = 1
    else:
        for f in draw(st.lists(st.sampled_from(WIRED_FLAGS), max_size=3, unique=True)):
            opts[f] = draw(st.booleans()) if f == "DO_BALANCED_CC" else True
        num = {
            "DT_CONT": st.sampled_from([-1.0, 0.0, 2.5, 5.0, 10.0, 20.0]),  # negative values are sanitised to 0
            "DT_PHASE_CHANGE": st.sampled_from([0.0, -1.0, 0.01, 0.1, 0.5, 1.0]),  # <= 0 is accepted and replaced by 0.01 by the option sanitiser
            "HTC": st.sampled_from([0.1, 1.0, 5.0, 10.0]),
            "UTILITY_PRICE": st.sampled_from([1.0, 40.0, 250.0]),
            "ANNUAL_OP_TIME": st.sampled_from([1000.0, 8300.0, 8760.0]),
            "FIXED_COST": st.sampled_from([0.0, 1000.0]),
            "VARIABLE_COST": st.sampled_from([100.0, 10000.0]),
            "COST_EXP": st.sampled_from([0.5, 0.6, 1.0]),
            "DISCOUNT_RATE": st.sampled_from([0.01, 0.07, 0.5]),
            "SERV_LIFE": st.sampled_from([1.0, 20.0, 50.0]),
        }
        for k in draw(st.lists(st.sampled_from(sorted(num)), max_size=3, unique=True)):
            opts[k] = draw(num[k])
    if opts:
        case["options"] = opts
    if not hp:
        case["reuse"] = draw(st.sampled_from([None, None, None, "dict", "dict_of_models", "model"]))
    if draw(st.integers(0, 5)) == 0 and not hp:
        # small explicit tree: every label is a leaf under the root
        labels = sorted({s["zone"] for s in case["streams"]})
        if all("/" not in l for l in labels):
            # a leaf may itself be declared a site (a site without sub-zones, streams attached directly); children None or []
            case["zone_tree"] = {"name": "Site", "type": "Site", "children": [{"name": l, "type": draw(st.sampled_from(["Process Zone", "Process Zone", "Site"])), "children": draw(st.sampled_from([None, None, []]))} for l in labels]}
    return case


def strategy(tier):
    # (one_of() drops repeated strategy objects, so the weighting is done with an integer draw)
    return st.integers(0, 15).flatmap(lambda k: G.community_problem() if k == 0 else wide_problem(tier))


def strategy_hp(tier):
    return wide_problem(tier, hp=True)


PARTS = [
    Part("service", eval_case, {"quick": 1200, "thorough": 40000}, strategy=strategy, min_nontrivial={"quick": 500, "thorough": 15000}),
    Part("heat_pump_options", eval_case, {"quick": 8, "thorough": 160}, strategy=strategy_hp, min_nontrivial={"quick": 2, "thorough": 40}),
]
MIN_SHARE = {"service": {"single-stream": 0.03, "only-hot": 0.05, "only-cold": 0.05, "isothermal": 0.1, "zero-contributions": 0.1, "duplicate-names": 0.2, "value-with-unit": 0.1, "mixed-spellings": 0.068, "explicit-zone-tree": 0.03, "opt:DT_PHASE_CHANGE<=0": 0.015}}
