"""Helpers shared by the pipeline-level properties (C02, C03, C04, C05, C06, C09 ...)."""
from __future__ import annotations

from fractions import Fraction as Fr
from typing import Dict, List, Optional, Tuple

from ..core.types import Outcome
from ..gen import service as S
from ..ref import cascade as C


class Analysis:
    """Result of one service call plus the exact cascades of every reporting zone."""

    def __init__(self, case: dict, out: Outcome, prefix: str, clear: bool = True):
        self.case = case
        self.ok = False
        ok, res = S.run_service(case, clear=clear)
        if not ok:
            out.fail(f"{prefix}.sut_exception:" + res, f"service raised {res}: {S.call_sut.last_message}")
            return
        self.ok = True
        self.result, self.master = res
        self.records = S.record_map(self.result)
        self.zones = []  # (path, zone, cascade)
        for path, zone in S.walk(self.master):
            if zone.identifier == "Unit Operation":
                continue
            if not zone.targets:
                continue
            rs = C.rstreams(S.members(case, path))
            self.zones.append((path, zone, C.cascade(rs)))
        self.site = self.zones[0][2] if self.zones else None
        self._finite(out, prefix)

    FINITE_COLS = ("T", "ΔT", "H_hot", "H_cold", "H_net", "H_net_np", "H_net_actual", "H_net_ut")

    def _finite(self, out: Outcome, prefix: str):
        """A NaN satisfies no inequality, so comparisons of the form |a - b| > tol would let it pass: every reported
        target value, utility duty and always-populated table column is required to be finite first."""
        import math

        for path, zone in S.walk(self.master):
            for key, t in zone.targets.items():
                vals = {"Qh": t.hot_utility_target, "Qc": t.cold_utility_target, "Qr": t.heat_recovery_target}
                for u in list(t.hot_utilities) + list(t.cold_utilities):
                    vals[f"utility {u.name}"] = u.heat_flow
                bad = [k for k, v in vals.items() if v is None or not math.isfinite(float(v))]
                if key.endswith("/" + S.DI) and getattr(t, "pt", None) is not None:
                    for col in self.FINITE_COLS:
                        try:
                            arr = t.pt.col[col]
                        except Exception:  # noqa: BLE001
                            continue
                        if any(not math.isfinite(float(x)) for x in arr):
                            bad.append(f"table column {col}")
                if bad:
                    out.fail(f"{prefix}.non_finite", f"record {key}: not a finite number: {bad[:6]}")

    def target(self, zone, kind):
        return zone.targets.get(f"{zone.name}/{kind}")


def eps_of(c: C.Cascade) -> float:
    return float(c.total) * 1e-6 + 1e-9


def ut_rows(t, side: str) -> List[dict]:
    """Utilities of one target as plain data: name, duty, shifted supply/target."""
    src = t.hot_utilities if side == "hot" else t.cold_utilities
    rows = []
    for u in src:
        if side == "hot":
            rows.append({"name": u.name, "q": float(u.heat_flow), "ts": u.t_max_star, "tt": u.t_min_star, "dt": u.dt_cont, "t_supply": u.t_supply, "t_target": u.t_target})
        else:
            rows.append({"name": u.name, "q": float(u.heat_flow), "ts": u.t_min_star, "tt": u.t_max_star, "dt": u.dt_cont, "t_supply": u.t_supply, "t_target": u.t_target})
    return rows


def classify_site(out: Outcome, an: Analysis):
    c = an.site
    case = an.case
    if c is None:
        return
    if c.hot and c.cold:
        if c.Qh > 0 and c.Qc > 0:
            out.labels.add("pinched")
        elif c.Qh == 0 and c.Qc == 0:
            out.labels.add("balanced")
        else:
            out.labels.add("threshold")
    elif c.hot:
        out.labels.add("only-hot-streams")
    else:
        out.labels.add("only-cold-streams")
    if len({s["zone"] for s in case["streams"]}) > 1:
        out.labels.add("multi-zone")
    if case.get("shape"):
        out.labels.add(case["shape"])
    for k, v in (case.get("options") or {}).items():
        if k.startswith("DO_") and v is True:
            out.labels.add("opt:" + k)
        elif k == "DECIMAL_PLACES":
            out.labels.add(f"opt:DECIMAL_PLACES={v}")
    us = [u for u in case.get("utilities", []) if u.get("active", True)]
    if not us:
        out.labels.add("no-utilities-given")
    if any(u["type"] == "Both" for u in us):
        out.labels.add("both-type-utility")
    if any(u["t_supply"] != u["t_target"] for u in us):
        out.labels.add("glide-utility")
    if sum(1 for u in us if u["type"] in ("Hot", "Both")) >= 2:
        out.labels.add("hot-levels>=2")
    if sum(1 for u in us if u["type"] in ("Cold", "Both")) >= 2:
        out.labels.add("cold-levels>=2")
    if any(s["t_supply"] == s["t_target"] for s in case["streams"]):
        out.labels.add("isothermal-stream")


def extreme_stream_isothermal(case) -> Tuple[bool, bool]:
    """(hottest cold stream is isothermal, coldest hot stream is ... n/a) — root-cause predicate helper."""
    rs = C.rstreams(case["streams"])
    cold = [s for s in rs if s.kind == "C"]
    hot = [s for s in rs if s.kind == "H"]
    top_iso = False
    if cold:
        m = max(s.smax for s in cold)
        top_iso = any(s.smax == m and s.tmax - s.tmin == C.ISO_DT for s in cold)
    return top_iso, False


def expanded_utilities(case):
    """Active user utilities with the documented isothermal expansion applied (exact fractions)."""
    opts = case.get("options") or {}
    dphase = C.fr(opts.get("DT_PHASE_CHANGE", 0.1))
    if dphase <= 0:
        dphase = Fr(1, 100)
    rows = []
    for u in case.get("utilities") or []:
        if not u.get("active", True):
            continue
        ts, tt = C.fr(u["t_supply"]), (None if u.get("t_target") is None else C.fr(u["t_target"]))
        if tt is None or tt == ts:
            tt = ts - dphase if u["type"] == "Hot" else ts + dphase
        rows.append({"name": u["name"], "type": u["type"], "lo": min(ts, tt), "hi": max(ts, tt), "dt": C.fr(u["dt_cont"])})
    return rows


def root_causes(out: Outcome, an: "Analysis"):
    """Root-cause predicates of known findings, computed from the input and the reference only."""
    root_causes_of_case(out, an.case, an.site)


def root_causes_of_case(out: Outcome, case: dict, site):
    if site is None:
        return
    us = expanded_utilities(case)
    if site.hot:
        cu_t_max = min(s.smin for s in site.hot)
        cold_capable = [u for u in us if u["type"] in ("Cold", "Both")]
        code_cover = any(u["hi"] - u["dt"] <= cu_t_max for u in cold_capable)
        strict_cover = any(u["hi"] + u["dt"] <= cu_t_max for u in cold_capable)
        if code_cover and not strict_cover:
            # R6: the coverage test is made with "- dt_cont" (real scale, wrong direction): no default CU is
            # added although no supplied cold utility lies wholly below the shifted process range
            out.rc.add("default-cu-suppressed-without-cover")
